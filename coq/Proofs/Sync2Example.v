(* Catching up across a fork (property C11), part 5: the premises of [sync_fork_catches_up_chains] (Proofs/Sync2Reach.v)
   are satisfiable - concrete forks of the verification network, every premise discharged by evaluation (the nodes are
   reachable states: fed from genesis).
     [example_higher_peer]      our chain: genesis + 10 blocks with equal timestamps (cumulative difficulty 53);
                                peer: genesis + 40 blocks 15 s apart (cumulative difficulty 85).  Fork at genesis; the
                                peer's branch becomes heavier than ours at height 25.
     [example_deep_fork]        our chain: genesis + 100 blocks 15 s apart; peer: genesis + 70 blocks with equal
                                timestamps, heavier but NOT higher; the fork (at genesis) is deeper than the 50 blocks the
                                "heavier but not higher" request covers: the blocks below are reached as parents of orphans.
     [example_long_light_fork]  REGRESSION of the repaired livelock 1 (Proofs/Sync2Stuck.v, KNOWN_FINDINGS
                                C11-long-light-fork): our 14 blocks (cumulative difficulty 145) against the peer's 75
                                (155; still 135 at height 65 = 14 + 51).  With the old by-height logic no block was stored
                                after the peer's block of height 65; now the node catches up.
     [example_long_fork_control] its control: our chain holds only the first 13 of the 14 blocks (112 < 133 at height 64). *)
From Coq Require Import Arith Lia.
From Virel Require Import Lib.Config Lib.U64 Lib.AMap Model.Ledger Model.Node Model.Sync Spec.Chain
  Proofs.ForkChoice Proofs.ChainHeights Proofs.Sync Proofs.Sync2Refine Proofs.Sync2Main Proofs.Sync2Reach Proofs.Sync2Stuck Gen.Params.
Open Scope N_scope.

Local Strategy 1000 [k_feed].

(* the premises that are universally quantified over the peer's branch, as one boolean *)
Definition ex_checks (B Pn : node) (theirs : list block) : bool :=
  forallb (fun b => negb (b_hash b =? 0)) (k_genesis :: theirs) &&
  forallb (fun b => match get_block B (b_hash b) with None => true | Some _ => false end) theirs &&
  acc_chain_b cfg_verifnet 7 B theirs &&
  forallb (fun j => top_cd (apply_ext cfg_verifnet 7 B (firstn j theirs)) <? top_cd Pn) (seq 0 (length theirs)) &&
  forallb (fun b => match prevalidate_block cfg_verifnet 0 b k_now with Ok _ => true | _ => false end) theirs.

Lemma k_feed_reachable bs : N.of_nat (length bs) < two64 - 1 -> NInv 1 (k_feed bs) /\ MInv (k_feed bs).
Proof.
  intros Hl. unfold k_feed.
  apply (reachable_MInv cfg_verifnet 7 0 k_genesis k_n0); [exact k_n0_ok|reflexivity|reflexivity|].
  rewrite map_length. exact Hl.
Qed.

Lemma example_instance ours theirs :
  N.of_nat (length ours) < two64 - 1 -> N.of_nat (length theirs) < two64 - 1 ->
  N.of_nat (length (blocks (k_feed ours)) + length theirs) <= two64 ->
  main_chain (k_feed theirs) = [k_genesis] ++ theirs -> theirs <> [] ->
  get_block (k_feed ours) 1 = Some k_genesis ->
  top_h (k_feed theirs) + parallel_blocks cfg_verifnet + 2 < two64 ->
  top_cd (k_feed ours) < top_cd (k_feed theirs) ->
  ex_checks (k_feed ours) (k_feed theirs) theirs = true ->
  exists bound, forall k, (bound <= k)%nat ->
    let s' := srounds cfg_verifnet 7 0 (k_feed theirs) k_now k (sync0 (k_feed ours)) in
    sy_node s' = apply_ext cfg_verifnet 7 (k_feed ours) theirs /\
    (forall b, In b (k_genesis :: theirs) -> get_block (sy_node s') (b_hash b) = Some b) /\
    top (sy_node s') = top (k_feed theirs).
Proof.
  intros Hl1 Hl2 Hl3 Hmc Hne Hg Hbound Hcd H. unfold ex_checks in H.
  apply andb_prop in H. destruct H as (H & Q6). apply andb_prop in H. destruct H as (H & Q4).
  apply andb_prop in H. destruct H as (H & Q3). apply andb_prop in H. destruct H as (Q1 & Q2).
  rewrite forallb_forall in Q1, Q2, Q4, Q6.
  destruct (k_feed_inv theirs Hl2) as (_ & HCP). destruct (k_feed_reachable ours Hl1) as (HN & HM).
  destruct (sync_fork_catches_up_chains cfg_verifnet 7 0 1 (k_feed theirs) (k_feed ours) [k_genesis] theirs HCP
              HN HM Hl3 Hmc ltac:(discriminate) Hne) with (s := sync0 (k_feed ours)) as (bound & Hbd).
  - intros b Hb. specialize (Q1 b Hb). destruct (N.eqb_spec (b_hash b) 0); [discriminate|assumption].
  - intros b [<-|[]]. exact Hg.
  - intros b Hb. specialize (Q2 b Hb). destruct (get_block (k_feed ours) (b_hash b)); [discriminate|reflexivity].
  - apply acc_chain_b_sound. exact Q3.
  - intros j Hj. apply N.ltb_lt. apply Q4. apply in_seq. lia.
  - exact Hbound.
  - vm_compute. discriminate.
  - reflexivity.
  - reflexivity.
  - reflexivity.
  - left. exact Hcd.
  - exists bound. intros k Hk. cbn zeta.
    assert (Hpre : forall b, In b (tl ([k_genesis] ++ theirs)) -> prevalidate_block cfg_verifnet 0 b k_now = Ok tt).
    { intros b Hb. specialize (Q6 b Hb). destruct (prevalidate_block cfg_verifnet 0 b k_now) as [[]| |]; [reflexivity|discriminate|discriminate]. }
    destruct (Hbd k_now Hpre) as (Hk1 & _). destruct (Hk1 k Hk) as (E1 & E2 & E3 & _). cbn zeta in *.
    split; [exact E1|]. split; [|exact E3]. intros b Hin. apply E2. rewrite Hmc. exact Hin.
Qed.

Ltac example_by_evaluation ours theirs :=
  apply (example_instance ours theirs);
    [vm_compute; reflexivity|vm_compute; reflexivity|vm_compute; discriminate|vm_compute; reflexivity|discriminate|
     vm_compute; reflexivity|vm_compute; reflexivity|vm_compute; reflexivity|vm_compute; reflexivity].

Definition e_ours1 : list block := Eval vm_compute in k_build 10 k_n0 k_genesis 1001 0 0 [].
Definition e_theirs1 : list block := Eval vm_compute in k_build 40 k_n0 k_genesis 2001 0 15000 [].

Theorem example_higher_peer :
  (top_h (k_feed e_ours1), top_cd (k_feed e_ours1), top_h (k_feed e_theirs1), top_cd (k_feed e_theirs1)) = (10, 53, 40, 85) /\
  exists bound, forall k, (bound <= k)%nat ->
    let s' := srounds cfg_verifnet 7 0 (k_feed e_theirs1) k_now k (sync0 (k_feed e_ours1)) in
    sy_node s' = apply_ext cfg_verifnet 7 (k_feed e_ours1) e_theirs1 /\
    (forall b, In b (k_genesis :: e_theirs1) -> get_block (sy_node s') (b_hash b) = Some b) /\
    top (sy_node s') = top (k_feed e_theirs1).
Proof. split; [vm_compute; reflexivity|]. example_by_evaluation e_ours1 e_theirs1. Qed.

Definition e_ours2 : list block := Eval vm_compute in k_build 100 k_n0 k_genesis 1001 0 15000 [].
Definition e_theirs2 : list block := Eval vm_compute in k_build 70 k_n0 k_genesis 2001 0 0 [].

Theorem example_deep_fork :
  (top_h (k_feed e_ours2), top_h (k_feed e_theirs2)) = (100, 70) /\ top_cd (k_feed e_ours2) < top_cd (k_feed e_theirs2) /\
  exists bound, forall k, (bound <= k)%nat ->
    let s' := srounds cfg_verifnet 7 0 (k_feed e_theirs2) k_now k (sync0 (k_feed e_ours2)) in
    sy_node s' = apply_ext cfg_verifnet 7 (k_feed e_ours2) e_theirs2 /\
    (forall b, In b (k_genesis :: e_theirs2) -> get_block (sy_node s') (b_hash b) = Some b) /\
    top (sy_node s') = top (k_feed e_theirs2).
Proof. split; [vm_compute; reflexivity|]. split; [vm_compute; reflexivity|]. example_by_evaluation e_ours2 e_theirs2. Qed.

(* the repaired livelock 1: 14 blocks (145) against 75 blocks (155; 135 at height 65) *)
Theorem example_long_light_fork :
  (top (k_feed k_ours), top_h (k_feed k_ours), top_cd (k_feed k_ours)) = (1014, 14, 145) /\
  (top (k_feed k_theirs), top_h (k_feed k_theirs), top_cd (k_feed k_theirs)) = (2075, 75, 155) /\
  map b_cd (firstn 1 (skipn 64 k_theirs)) = [135] /\
  exists bound, forall k, (bound <= k)%nat ->
    let s' := srounds cfg_verifnet 7 0 (k_feed k_theirs) k_now k (sync0 (k_feed k_ours)) in
    sy_node s' = apply_ext cfg_verifnet 7 (k_feed k_ours) k_theirs /\
    (forall b, In b (k_genesis :: k_theirs) -> get_block (sy_node s') (b_hash b) = Some b) /\
    top (sy_node s') = top (k_feed k_theirs).
Proof.
  split; [vm_compute; reflexivity|]. split; [vm_compute; reflexivity|]. split; [vm_compute; reflexivity|].
  example_by_evaluation k_ours k_theirs.
Qed.

(* with the number of rounds: [sim] reaches the peer's tip within 600 rounds (the fuel Check/C11.v gives it) *)
Theorem example_long_light_fork_sim :
  top (sy_node (fst (sim cfg_verifnet 7 0 600 (k_feed k_theirs) (sync0 (k_feed k_ours)) [] k_now))) = 2075.
Proof. vm_compute. reflexivity. Qed.

(* its control: our chain holds only the first 13 of the 14 blocks *)
Definition e_ours3 : list block := Eval vm_compute in firstn 13 k_ours.

Theorem example_long_fork_control :
  (top_h (k_feed e_ours3), top_cd (k_feed e_ours3)) = (13, 112) /\
  map b_cd (firstn 1 (skipn 63 k_theirs)) = [133] /\
  exists bound, forall k, (bound <= k)%nat ->
    let s' := srounds cfg_verifnet 7 0 (k_feed k_theirs) k_now k (sync0 (k_feed e_ours3)) in
    sy_node s' = apply_ext cfg_verifnet 7 (k_feed e_ours3) k_theirs /\
    (forall b, In b (k_genesis :: k_theirs) -> get_block (sy_node s') (b_hash b) = Some b) /\
    top (sy_node s') = top (k_feed k_theirs).
Proof. split; [vm_compute; reflexivity|]. split; [vm_compute; reflexivity|]. example_by_evaluation e_ours3 k_theirs. Qed.
