(* Proofs about the transport model (property C14).
   Part 1: the byte-level codecs (no cryptographic assumption at all).
   Part 2: the symbolic protocol; everything assumed about X25519 / BLAKE3 / AES-GCM is a Hypothesis of the
   Section (collected in [ideal_crypto] for the statements of Props/C14.v). *)
From Coq Require Import NArith List Bool Lia ZifyN ZifyBool Arith.
From Virel Require Import Lib.U64 Model.Frame.
Import ListNotations.
Open Scope N_scope.

(* ------------------------------------------------------------------ lists *)

Lemma firstn_app_exact {A} (a b : list A) : firstn (length a) (a ++ b) = a.
Proof. induction a; simpl; [destruct b; reflexivity | f_equal; exact IHa]. Qed.

Lemma skipn_app_exact {A} (a b : list A) : skipn (length a) (a ++ b) = b.
Proof. induction a; simpl; [reflexivity | exact IHa]. Qed.

Lemma blen_app {A} (a b : list A) : blen (a ++ b) = blen a + blen b.
Proof. unfold blen. rewrite app_length. lia. Qed.

Lemma blen_cons {A} (x : A) (l : list A) : blen (x :: l) = 1 + blen l.
Proof. unfold blen. simpl length. lia. Qed.

Lemma to_nat_blen {A} (l : list A) : N.to_nat (blen l) = length l.
Proof. unfold blen. apply Nat2N.id. Qed.

(* ------------------------------------------------------------------ little endian *)

Definition bytes_ok (bs : list N) : Prop := Forall (fun b => b < 256) bs.

Lemma le_encode_length w v : length (le_encode w v) = w.
Proof. revert v. induction w; intros; simpl; [reflexivity | f_equal; apply IHw]. Qed.

Lemma le_encode_bytes w v : bytes_ok (le_encode w v).
Proof.
  revert v. induction w; intros; simpl; constructor.
  - apply N.mod_lt. discriminate.
  - apply IHw.
Qed.

Lemma pow256_succ (w : nat) : 256 ^ N.of_nat (S w) = 256 * 256 ^ N.of_nat w.
Proof. rewrite Nat2N.inj_succ, N.pow_succ_r'. reflexivity. Qed.

Lemma pow256_nz (w : nat) : 256 ^ N.of_nat w <> 0.
Proof. apply N.pow_nonzero. discriminate. Qed.

Lemma le_decode_encode w v : le_decode (le_encode w v) = v mod 256 ^ N.of_nat w.
Proof.
  revert v. induction w; intros v.
  - simpl. rewrite N.mod_1_r. reflexivity.
  - cbn [le_encode le_decode]. rewrite IHw, pow256_succ.
    rewrite N.mod_mul_r; [reflexivity | discriminate | apply pow256_nz].
Qed.

Lemma le_decode_encode_small w v : v < 256 ^ N.of_nat w -> le_decode (le_encode w v) = v.
Proof. intros H. rewrite le_decode_encode. apply N.mod_small. exact H. Qed.

Lemma le_encode_decode bs : bytes_ok bs -> le_encode (length bs) (le_decode bs) = bs.
Proof.
  induction 1 as [|b r Hb Hr IH]; [reflexivity|].
  cbn [length le_encode le_decode].
  assert (E1 : (b + 256 * le_decode r) mod 256 = b).
  { rewrite N.mul_comm, N.mod_add by discriminate. apply N.mod_small. exact Hb. }
  assert (E2 : (b + 256 * le_decode r) / 256 = le_decode r).
  { rewrite N.mul_comm, N.div_add by discriminate. rewrite N.div_small by exact Hb. reflexivity. }
  rewrite E1, E2, IH. reflexivity.
Qed.

Lemma le_decode_bound bs : bytes_ok bs -> le_decode bs < 256 ^ N.of_nat (length bs).
Proof.
  induction 1 as [|b r Hb Hr IH]; [reflexivity|].
  cbn [length le_decode]. rewrite pow256_succ. lia.
Qed.

Lemma le_encode_mod w v : le_encode w (v mod 256 ^ N.of_nat w) = le_encode w v.
Proof.
  rewrite <- (le_decode_encode w v).
  rewrite <- (le_encode_length w v) at 1.
  apply le_encode_decode, le_encode_bytes.
Qed.

(* ------------------------------------------------------------------ frame header *)

Lemma two32 : 256 ^ N.of_nat 4 = 4294967296. Proof. reflexivity. Qed.

Lemma hdr_encode_length len : length (hdr_encode len) = 4%nat.
Proof. apply le_encode_length. Qed.

Lemma hdr_encode_bytes len : bytes_ok (hdr_encode len).
Proof. apply le_encode_bytes. Qed.

Lemma hdr_decode_encode len : len < 4294967296 -> le_decode (hdr_encode len) = len.
Proof. intros H. apply le_decode_encode_small. rewrite two32. exact H. Qed.

(* every length up to the limit round-trips *)
Lemma hdr_roundtrip len : len <= FRAME_LIMIT -> hdr_decode (hdr_encode len) = HLen len.
Proof.
  intros H. unfold hdr_decode. unfold FRAME_LIMIT in *.
  rewrite hdr_decode_encode by lia.
  destruct (N.leb_spec len 4194304); [reflexivity | lia].
Qed.

(* every 32-bit length above the limit is refused *)
Lemma hdr_rejects len : FRAME_LIMIT < len -> len < 4294967296 -> hdr_decode (hdr_encode len) = HTooBig len.
Proof.
  intros H1 H2. unfold hdr_decode. unfold FRAME_LIMIT in *.
  rewrite hdr_decode_encode by lia.
  destruct (N.leb_spec len 4194304); [lia | reflexivity].
Qed.

(* uint32 truncation on the sending side *)
Lemma hdr_encode_wraps len : hdr_encode (len mod 4294967296) = hdr_encode len.
Proof. unfold hdr_encode. rewrite <- two32. apply le_encode_mod. Qed.

(* any four bytes accepted as a header are the encoding of exactly the accepted length *)
Lemma hdr_decode_sound bs n : length bs = 4%nat -> bytes_ok bs -> hdr_decode bs = HLen n ->
  n <= FRAME_LIMIT /\ hdr_encode n = bs.
Proof.
  intros Hl Hb H. unfold hdr_decode in H.
  destruct (N.leb_spec (le_decode bs) FRAME_LIMIT); [|discriminate].
  injection H as <-. split; [assumption|].
  unfold hdr_encode. rewrite <- Hl. apply le_encode_decode. exact Hb.
Qed.

(* ------------------------------------------------------------------ framing over plain bytes *)

Lemma bframe_unfold body rest :
  bframe body ++ rest = hdr_encode (blen body) ++ (body ++ rest).
Proof. unfold bframe. rewrite <- app_assoc. reflexivity. Qed.

Lemma bparse_frame f body rest : blen body <= FRAME_LIMIT ->
  bparse (S f) (bframe body ++ rest) = let '(l, e) := bparse f rest in (body :: l, e).
Proof.
  intros Hle. rewrite bframe_unfold.
  pose proof (hdr_encode_length (blen body)) as Hl.
  pose proof (hdr_roundtrip _ Hle) as Hd.
  remember (hdr_encode (blen body)) as h eqn:Eh.
  destruct h as [|a [|b [|c [|d [|x h]]]]]; try discriminate Hl. clear Hl.
  cbn [bparse app].
  change (a :: b :: c :: d :: body ++ rest) with ([a; b; c; d] ++ (body ++ rest)).
  assert (E4 : blen ([a; b; c; d] ++ body ++ rest) <? 4 = false).
  { rewrite blen_app. change (blen [a; b; c; d]) with 4. apply N.ltb_ge. lia. }
  rewrite E4.
  change 4%nat with (length [a; b; c; d]).
  rewrite firstn_app_exact, skipn_app_exact, Hd.
  assert (E5 : blen (body ++ rest) <? blen body = false).
  { rewrite blen_app. apply N.ltb_ge. lia. }
  rewrite E5, to_nat_blen, firstn_app_exact, skipn_app_exact. reflexivity.
Qed.

Lemma bparse_roundtrip bodies : Forall (fun b => blen b <= FRAME_LIMIT) bodies ->
  forall fuel, (length bodies < fuel)%nat -> bparse fuel (concat (map bframe bodies)) = (bodies, BEof).
Proof.
  induction 1 as [|b r Hb Hr IH]; intros fuel Hf.
  - destruct fuel; [inversion Hf | reflexivity].
  - destruct fuel; [inversion Hf|]. cbn [map concat].
    rewrite bparse_frame by exact Hb. rewrite IH by (simpl in Hf; lia). reflexivity.
Qed.

Lemma bparse_oversize f body rest : FRAME_LIMIT < blen body -> blen body < 4294967296 ->
  bparse (S f) (bframe body ++ rest) = ([], BTooBig (blen body)).
Proof.
  intros H1 H2. rewrite bframe_unfold.
  pose proof (hdr_encode_length (blen body)) as Hl.
  pose proof (hdr_rejects _ H1 H2) as Hd.
  remember (hdr_encode (blen body)) as h eqn:Eh.
  destruct h as [|a [|b [|c [|d [|x h]]]]]; try discriminate Hl. clear Hl.
  cbn [bparse app].
  change (a :: b :: c :: d :: body ++ rest) with ([a; b; c; d] ++ (body ++ rest)).
  assert (E4 : blen ([a; b; c; d] ++ body ++ rest) <? 4 = false).
  { rewrite blen_app. change (blen [a; b; c; d]) with 4. apply N.ltb_ge. lia. }
  rewrite E4.
  change 4%nat with (length [a; b; c; d]).
  rewrite firstn_app_exact, Hd. reflexivity.
Qed.

(* whatever parses to the end is the concatenation of the encodings of what was parsed: the framing is unambiguous *)
Lemma bparse_sound fuel : forall s l, bytes_ok s -> bparse fuel s = (l, BEof) -> s = concat (map bframe l).
Proof.
  induction fuel as [|f IH]; intros s l Hs H; [discriminate|].
  cbn [bparse] in H. destruct s as [|x s']; [injection H as <-; reflexivity|].
  remember (x :: s') as s eqn:Es.
  destruct (N.ltb_spec (blen s) 4) as [|H4]; [discriminate|].
  destruct (hdr_decode (firstn 4 s)) as [n|n] eqn:Hd; [|discriminate].
  destruct (N.ltb_spec (blen (skipn 4 s)) n) as [|Hn]; [discriminate|].
  destruct (bparse f (skipn (N.to_nat n) (skipn 4 s))) as [l' e'] eqn:Hr.
  injection H as <- ->.
  assert (Hl4 : length (firstn 4 s) = 4%nat).
  { apply firstn_length_le. unfold blen in H4. lia. }
  assert (Hb4 : bytes_ok (firstn 4 s)).
  { unfold bytes_ok. rewrite <- (firstn_skipn 4 s) in Hs. apply Forall_app in Hs. tauto. }
  destruct (hdr_decode_sound _ _ Hl4 Hb4 Hd) as [_ He].
  assert (Hbr : bytes_ok (skipn 4 s)).
  { unfold bytes_ok. rewrite <- (firstn_skipn 4 s) in Hs. apply Forall_app in Hs. tauto. }
  assert (Hbt : bytes_ok (skipn (N.to_nat n) (skipn 4 s))).
  { unfold bytes_ok. rewrite <- (firstn_skipn (N.to_nat n) (skipn 4 s)) in Hbr. apply Forall_app in Hbr. tauto. }
  specialize (IH _ _ Hbt Hr).
  cbn [map concat]. rewrite <- IH. unfold bframe.
  change (match s with | _ :: _ :: _ :: _ :: l2 => l2 | _ => [] end) with (skipn 4 s).
  assert (Hlen : blen (firstn (N.to_nat n) (skipn 4 s)) = n).
  { unfold blen. rewrite firstn_length_le; [lia|]. unfold blen in Hn. lia. }
  rewrite Hlen, He, <- app_assoc, firstn_skipn, firstn_skipn. reflexivity.
Qed.

(* ------------------------------------------------------------------ plaintext (type || data) *)

Lemma payload_roundtrip wt d : wt < 65536 -> payload_decode (payload_encode wt d) = Some (wt, d).
Proof.
  intros H. unfold payload_encode. cbn [le_encode app payload_decode].
  do 2 f_equal.
  assert (E : wt / 256 < 256) by (apply N.div_lt_upper_bound; lia).
  rewrite (N.mod_small (wt / 256) 256 E).
  rewrite (N.div_mod wt 256) at 3 by discriminate. lia.
Qed.

Lemma payload_length wt d : blen (payload_encode wt d) = 2 + blen d.
Proof. unfold payload_encode. rewrite blen_app. unfold blen at 1. rewrite le_encode_length. reflexivity. Qed.

Lemma payload_short m : blen m < 2 -> payload_decode m = None.
Proof.
  destruct m as [|a [|b m]]; try reflexivity. rewrite !blen_cons. lia.
Qed.

Lemma wire_type_small ty : ty + 2 < 65536 -> wire_type ty = ty + 2.
Proof. intros H. unfold wire_type. apply N.mod_small. exact H. Qed.

(* ------------------------------------------------------------------ handshake codec *)

Definition hello_ok (h : hello_bytes) : Prop :=
  hb_version h < 18446744073709551616 /\ hb_p2pver h < 256 /\ length (hb_id h) = 32%nat /\ hb_port h < 65536.

Lemma hs_body_length h : length (hb_id h) = 32%nat -> length (hs_body h) = 43%nat.
Proof. intros H. unfold hs_body. rewrite !app_length, !le_encode_length, H. reflexivity. Qed.

Lemma firstn_app_len {A} n (a b : list A) : length a = n -> firstn n (a ++ b) = a.
Proof. intros <-. apply firstn_app_exact. Qed.

Lemma skipn_app_len {A} n (a b : list A) : length a = n -> skipn n (a ++ b) = b.
Proof. intros <-. apply skipn_app_exact. Qed.

Lemma hs_roundtrip h rest : hello_ok h -> hs_decode (hs_encode h ++ rest) = HsParsed h.
Proof.
  intros (Hv & Hp & Hi & Hq).
  pose proof (hs_body_length h Hi) as HL.
  unfold hs_decode, hs_encode. rewrite <- app_assoc.
  assert (Bl : blen (hs_body h) = 43) by (unfold blen; rewrite HL; reflexivity).
  rewrite Bl.
  set (hd := le_encode 4 43).
  assert (Lh : length hd = 4%nat) by reflexivity.
  assert (E0 : blen (hd ++ hs_body h ++ rest) <? 4 = false).
  { rewrite blen_app. apply N.ltb_ge. change (blen hd) with 4. lia. }
  rewrite E0.
  rewrite (firstn_app_len 4 hd _ Lh), (skipn_app_len 4 hd _ Lh).
  change (le_decode hd) with 43. change (HANDSHAKE_LIMIT <? 43) with false. cbv iota.
  assert (E1 : blen (hs_body h ++ rest) <? 43 = false).
  { rewrite blen_app, Bl. apply N.ltb_ge. lia. }
  rewrite E1. change (N.to_nat 43) with 43%nat.
  rewrite (firstn_app_len 43 (hs_body h) rest HL).
  rewrite Bl. change (43 =? 43) with true. cbv iota.
  unfold hs_body.
  set (a := le_encode 8 (hb_version h)). set (b := le_encode 1 (hb_p2pver h)). set (c := le_encode 2 (hb_port h)).
  assert (La : length a = 8%nat) by apply le_encode_length.
  assert (Lb : length b = 1%nat) by apply le_encode_length.
  assert (Lab : length (a ++ b) = 9%nat) by (rewrite app_length, La, Lb; reflexivity).
  assert (Labi : length (a ++ b ++ hb_id h) = 41%nat) by (rewrite !app_length, La, Lb, Hi; reflexivity).
  rewrite (firstn_app_len 8 a _ La), (skipn_app_len 8 a _ La), (firstn_app_len 1 b _ Lb).
  replace (a ++ b ++ hb_id h ++ c) with ((a ++ b) ++ hb_id h ++ c) at 1 by (rewrite <- app_assoc; reflexivity).
  rewrite (skipn_app_len 9 (a ++ b) _ Lab), (firstn_app_len 32 (hb_id h) c Hi).
  replace (a ++ b ++ hb_id h ++ c) with ((a ++ b ++ hb_id h) ++ c) by (rewrite <- !app_assoc; reflexivity).
  rewrite (skipn_app_len 41 _ c Labi).
  subst a b c.
  rewrite (le_decode_encode_small 8) by exact Hv.
  rewrite (le_decode_encode_small 1) by exact Hp.
  rewrite (le_decode_encode_small 2) by exact Hq.
  destruct h; reflexivity.
Qed.

Lemma hs_rejects_oversize s : (4 <= length s)%nat -> HANDSHAKE_LIMIT < le_decode (firstn 4 s) -> hs_decode s = HsTooBig.
Proof.
  intros H4 H. unfold hs_decode.
  destruct (N.ltb_spec (blen s) 4) as [C|_]; [unfold blen in C; lia|].
  destruct (N.ltb_spec HANDSHAKE_LIMIT (le_decode (firstn 4 s))); [reflexivity | lia].
Qed.

(* ------------------------------------------------------------------ symbolic protocol *)

(* the assumptions, named *)
Definition eqb_correct {A : Type} (e : A -> A -> bool) : Prop := forall a b, e a b = true <-> a = b.
Definition dh_commutes {sk pk sh : Type} (pub : sk -> pk) (dh : sk -> pk -> sh) : Prop :=
  forall a b, dh a (pub b) = dh b (pub a).
Definition kdf_injective {sh key : Type} (kdf : N -> sh -> key) : Prop :=
  forall n1 s1 n2 s2, kdf n1 s1 = kdf n2 s2 -> n1 = n2 /\ s1 = s2.
Definition dh_pair_injective {sk pk sh : Type} (pub : sk -> pk) (dh : sk -> pk -> sh) : Prop :=
  forall a b a' b', dh a (pub b) = dh a' (pub b') ->
    (pub a = pub a' /\ pub b = pub b') \/ (pub a = pub b' /\ pub b = pub a').

(* what is assumed about the cryptographic primitives, stated once *)
Definition ideal_crypto {sk pk sh key : Type} (pub : sk -> pk) (dh : sk -> pk -> sh) (kdf : N -> sh -> key)
    (key_eqb : key -> key -> bool) (pk_eqb : pk -> pk -> bool) : Prop :=
  (forall a b, key_eqb a b = true <-> a = b) /\            (* keys can be compared (not an assumption on crypto) *)
  (forall a b, pk_eqb a b = true <-> a = b) /\
  (forall a b, dh a (pub b) = dh b (pub a)) /\              (* X25519 agreement *)
  (forall n1 s1 n2 s2, kdf n1 s1 = kdf n2 s2 -> n1 = n2 /\ s1 = s2) /\   (* BLAKE3 over netid || secret: no collisions *)
  (forall a b a' b', dh a (pub b) = dh a' (pub b') ->      (* distinct pairs of nodes have distinct secrets *)
     (pub a = pub a' /\ pub b = pub b') \/ (pub a = pub b' /\ pub b = pub a')).

Section SymProofs.
Context {key : Type}.
Variable key_eqb : key -> key -> bool.

(* the only fact the receiver's own proofs need: keys can be compared *)
Hypothesis key_eqb_spec : forall a b, key_eqb a b = true <-> a = b.

Notation chunk := (@chunk key).
Notation recv_step := (recv_step key_eqb).
Notation recv_loop := (fun f => recv_loop key_eqb f).
Notation recv := (recv key_eqb).
Notation aead_open := (aead_open key_eqb).

Definition box_len (m : list N) : N := NONCE_SIZE + (blen m + TAG_SIZE).

Lemma key_eqb_refl k : key_eqb k k = true.
Proof. apply key_eqb_spec. reflexivity. Qed.

(* AEAD: opens under exactly the key and nonce it was sealed with, and nothing else opens *)
Lemma aead_open_iff k n c m : aead_open k n c = Some m <-> c = Sealed k n m.
Proof.
  destruct c as [k' n' m'|bs]; cbn [Frame.aead_open]; [|split; discriminate].
  destruct (key_eqb k k') eqn:Ek; cbn [andb].
  - apply key_eqb_spec in Ek. subst k'.
    destruct (N.eqb_spec n n'); [subst; split; congruence|].
    split; [discriminate | intros H; injection H; intros; congruence].
  - split; [discriminate|]. intros H. injection H as -> -> ->. rewrite key_eqb_refl in Ek. discriminate.
Qed.

Lemma aead_open_sealed k n m : aead_open k n (Sealed k n m) = Some m.
Proof. apply aead_open_iff. reflexivity. Qed.

(* ---- reading ---- *)

Lemma read_raw_exact (bs : list N) (r : list chunk) n : length bs = n -> n <> 0%nat ->
  read_raw (Raw bs :: r) n = Got bs (Raw [] :: r).
Proof.
  intros <- Hn. destruct bs as [|x bs]; [contradiction|].
  cbn [read_raw]. rewrite Nat.leb_refl, firstn_all, skipn_all. reflexivity.
Qed.

Lemma drop_empty_raw (x : N) bs (r : list chunk) : drop_empty (Raw (x :: bs) :: r) = Raw (x :: bs) :: r.
Proof. reflexivity. Qed.

Lemma drop_empty_box n c (r : list chunk) : drop_empty (Box n c :: r) = Box n c :: r.
Proof. reflexivity. Qed.

(* the receiver on one genuine frame *)
Lemma recv_step_frame k n m wt d (rest : list chunk) :
  box_len m <= FRAME_LIMIT -> payload_decode m = Some (wt, d) ->
  recv_step k (Raw (hdr_encode (box_len m)) :: Box n (Sealed k n m) :: rest) = SPkt wt d rest.
Proof.
  intros Hle Hp.
  pose proof (hdr_encode_length (box_len m)) as Hl.
  pose proof (hdr_roundtrip _ Hle) as Hd.
  remember (hdr_encode (box_len m)) as h eqn:Eh.
  destruct h as [|a h]; [discriminate Hl|].
  unfold Frame.recv_step. rewrite drop_empty_raw.
  rewrite read_raw_exact by (auto; discriminate). rewrite Hd.
  unfold read_body. cbn [drop_empty chunk_len ct_len].
  fold (box_len m). rewrite N.eqb_refl, aead_open_sealed, Hp. reflexivity.
Qed.

Lemma seal_frame_unfold (k : key) n wt d :
  seal_frame k n wt d =
  [Raw (hdr_encode (box_len (payload_encode wt d))); Box n (Sealed k n (payload_encode wt d))].
Proof. unfold seal_frame, cipher_encrypt, box_len. rewrite N.add_assoc. reflexivity. Qed.

Definition wire_ok (p : N * list N) : Prop := fst p < 65536 /\ blen (snd p) + 30 <= FRAME_LIMIT.

Lemma box_len_payload wt d : box_len (payload_encode wt d) = blen d + 30.
Proof. unfold box_len. rewrite payload_length. unfold NONCE_SIZE, TAG_SIZE. lia. Qed.

Lemma recv_step_genuine k n wt d rest : wire_ok (wt, d) ->
  recv_step k (seal_frame k n wt d ++ rest) = SPkt wt d rest.
Proof.
  intros [Hw Hl]. cbn [fst snd] in *. rewrite seal_frame_unfold. cbn [app].
  apply recv_step_frame; [rewrite box_len_payload; exact Hl | apply payload_roundtrip; exact Hw].
Qed.

(* authenticity: a packet is accepted only out of an intact box sealed under exactly this key, whose wire nonce is
   the sealing nonce, placed at a frame boundary after four clear bytes giving exactly its length *)
Lemma recv_step_accept_inv k s wt d r : recv_step k s = SPkt wt d r ->
  exists hdr mid n m,
    read_raw (drop_empty s) 4 = Got hdr mid /\
    drop_empty mid = Box n (Sealed k n m) :: r /\
    le_decode hdr = box_len m /\ box_len m <= FRAME_LIMIT /\
    payload_decode m = Some (wt, d).
Proof.
  unfold Frame.recv_step. intros H.
  destruct (drop_empty s) as [|c0 s0] eqn:Es; [discriminate|].
  destruct (read_raw (c0 :: s0) 4) as [hdr mid| |] eqn:Er; try discriminate.
  unfold hdr_decode in H.
  destruct (N.leb_spec (le_decode hdr) FRAME_LIMIT) as [Hle|]; [|discriminate].
  unfold read_body in H.
  destruct (drop_empty mid) as [|[bs|q|n c] r'] eqn:Em;
    try (destruct (le_decode hdr <=? avail mid); discriminate).
  destruct (N.eqb_spec (chunk_len (Box n c)) (le_decode hdr)) as [El|];
    [|destruct (le_decode hdr <=? avail mid); discriminate].
  destruct (aead_open k n c) as [m|] eqn:Eo; [|discriminate].
  apply aead_open_iff in Eo. subst c.
  destruct (payload_decode m) as [[wt' d']|] eqn:Ep; [|discriminate].
  injection H as -> -> ->.
  exists hdr, mid, n, m. cbn [chunk_len ct_len] in El. unfold box_len. rewrite El.
  repeat split; auto.
Qed.

(* ---- the loop ---- *)

Lemma recv_loop_mono f k s l e : Frame.recv_loop key_eqb f k s = (l, e) -> e <> RFuel ->
  forall f', (f <= f')%nat -> Frame.recv_loop key_eqb f' k s = (l, e).
Proof.
  revert s l e. induction f as [|f IH]; intros s l e H Hne f' Hf.
  - cbn in H. injection H as <- <-. contradiction.
  - destruct f' as [|f']; [lia|]. cbn [Frame.recv_loop] in *.
    destruct (recv_step k s) as [|e0|wt d r]; try exact H.
    destruct (Frame.recv_loop key_eqb f k r) as [l0 e0] eqn:E0.
    injection H as <- <-.
    rewrite (IH _ _ _ E0 Hne f') by lia. reflexivity.
Qed.

Lemma send_wire_cons (k : key) wt d ps n ns :
  send_wire k ((wt, d) :: ps) (n :: ns) = seal_frame k n wt d ++ send_wire k ps ns.
Proof. reflexivity. Qed.

(* genuine frames in front of anything: delivered one by one, then whatever the rest does *)
Lemma recv_loop_genuine_prefix k pkts : Forall wire_ok pkts ->
  forall nonces t fuel, length nonces = length pkts ->
  Frame.recv_loop key_eqb (length pkts + fuel) k (send_wire k pkts nonces ++ t) =
  let '(l, e) := Frame.recv_loop key_eqb fuel k t in (pkts ++ l, e).
Proof.
  induction 1 as [|[wt d] ps Hp Hps IH]; intros nonces t fuel Hn.
  - destruct nonces; [|discriminate]. cbn. destruct (Frame.recv_loop key_eqb fuel k t). reflexivity.
  - destruct nonces as [|n ns]; [discriminate|]. injection Hn as Hn.
    rewrite send_wire_cons, <- app_assoc.
    cbn [length Nat.add Frame.recv_loop].
    rewrite recv_step_genuine by exact Hp.
    rewrite IH by exact Hn.
    destruct (Frame.recv_loop key_eqb fuel k t). reflexivity.
Qed.

Lemma send_wire_length (k : key) pkts : forall nonces, length nonces = length pkts ->
  length (send_wire k pkts nonces) = (2 * length pkts)%nat.
Proof.
  induction pkts as [|[wt d] ps IH]; intros [|n ns] H; try discriminate; [reflexivity|].
  injection H as H. rewrite send_wire_cons, app_length, IH by exact H. cbn [seal_frame length]. lia.
Qed.

Lemma recv_genuine_then k pkts nonces t l e :
  Forall wire_ok pkts -> length nonces = length pkts ->
  recv k t = (l, e) -> e <> RFuel ->
  recv k (send_wire k pkts nonces ++ t) = (pkts ++ l, e).
Proof.
  intros Hok Hn Ht Hne. unfold Frame.recv in *.
  pose proof (recv_loop_genuine_prefix k pkts Hok nonces t (S (length t)) Hn) as H.
  rewrite Ht in H.
  eapply recv_loop_mono; [exact H | exact Hne |].
  rewrite app_length, send_wire_length by exact Hn. lia.
Qed.

(* packets as handed to SendPacket *)
Definition pkt_ok (p : N * list N) : Prop := fst p + 2 < 65536 /\ blen (snd p) + 30 <= FRAME_LIMIT.

Lemma to_wire_ok p : pkt_ok p -> wire_ok (to_wire p).
Proof.
  intros [H1 H2]. unfold to_wire, wire_ok. cbn [fst snd]. split; [|exact H2].
  unfold wire_type. apply N.mod_lt. discriminate.
Qed.

Lemma deliver_to_wire pkts : Forall pkt_ok pkts -> deliver (map to_wire pkts) = pkts.
Proof.
  induction 1 as [|[ty d] ps [H1 H2] Hps IH]; [reflexivity|].
  cbn [map deliver flat_map to_wire fst snd] in *. fold (deliver (map to_wire ps)). rewrite IH.
  rewrite wire_type_small by exact H1.
  destruct (N.ltb_spec (ty + 2) 2); [lia|].
  replace (ty + 2 - 2) with ty by lia. reflexivity.
Qed.

Lemma deliver_app a b : deliver (a ++ b) = deliver a ++ deliver b.
Proof. unfold deliver. apply flat_map_app. Qed.

(* delivery_exact *)
Lemma delivery_exact k pkts nonces : Forall pkt_ok pkts -> length nonces = length pkts ->
  recv k (send k pkts nonces) = (map to_wire pkts, REof) /\
  deliver (fst (recv k (send k pkts nonces))) = pkts.
Proof.
  intros Hok Hn.
  assert (Hw : Forall wire_ok (map to_wire pkts)).
  { apply Forall_forall. intros x Hx. apply in_map_iff in Hx. destruct Hx as (p & <- & Hp).
    apply to_wire_ok. rewrite Forall_forall in Hok. auto. }
  assert (E : recv k (send k pkts nonces) = (map to_wire pkts, REof)).
  { unfold send. rewrite <- (app_nil_r (send_wire k (map to_wire pkts) nonces)).
    rewrite <- (app_nil_r (map to_wire pkts)) at 2.
    apply recv_genuine_then; try assumption.
    - rewrite map_length. exact Hn.
    - reflexivity.
    - discriminate. }
  split; [exact E|]. rewrite E. cbn [fst]. apply deliver_to_wire. exact Hok.
Qed.

(* tamper_rejected, general form: after any number of genuine frames, anything that the receiver does not parse as
   a frame sealed under its key closes the connection with an error; exactly the genuine frames before it were
   delivered and nothing after it is looked at *)
Definition genuine_head (k : key) (t : list chunk) : Prop :=
  exists hdr mid n m r, read_raw (drop_empty t) 4 = Got hdr mid /\ drop_empty mid = Box n (Sealed k n m) :: r /\
                        le_decode hdr = box_len m.

Lemma recv_step_not_genuine k t : ~ genuine_head k t -> drop_empty t <> [] -> exists e, recv_step k t = SErr e.
Proof.
  intros Hng Hne. destruct (recv_step k t) as [|e|wt d r] eqn:E.
  - unfold Frame.recv_step in E. destruct (drop_empty t) eqn:Ed; [contradiction|].
    destruct (read_raw (c :: l) 4); try discriminate.
    destruct (hdr_decode x); try discriminate.
    destruct (read_body n rest); try discriminate.
    destruct (aead_open k n0 c0); try discriminate.
    destruct (payload_decode l0) as [[? ?]|]; discriminate.
  - exists e. reflexivity.
  - exfalso. apply Hng. apply recv_step_accept_inv in E.
    destruct E as (hdr & mid & n & m & H1 & H2 & H3 & _). exists hdr, mid, n, m, r. auto.
Qed.

Lemma tamper_rejected k pkts nonces t : Forall pkt_ok pkts -> length nonces = length pkts ->
  ~ genuine_head k t -> drop_empty t <> [] ->
  exists e, recv k (send k pkts nonces ++ t) = (map to_wire pkts, RErr e) /\
            deliver (fst (recv k (send k pkts nonces ++ t))) = pkts.
Proof.
  intros Hok Hn Hng Hne.
  destruct (recv_step_not_genuine k t Hng Hne) as [e He].
  assert (Hw : Forall wire_ok (map to_wire pkts)).
  { apply Forall_forall. intros x Hx. apply in_map_iff in Hx. destruct Hx as (p & <- & Hp).
    apply to_wire_ok. rewrite Forall_forall in Hok. auto. }
  assert (E : recv k (send k pkts nonces ++ t) = (map to_wire pkts, RErr e)).
  { unfold send.
    replace (map to_wire pkts, RErr e) with (map to_wire pkts ++ [], RErr e) by (rewrite app_nil_r; reflexivity).
    apply recv_genuine_then; try assumption.
    - rewrite map_length. exact Hn.
    - unfold Frame.recv. cbn [Frame.recv_loop]. rewrite He. reflexivity.
    - discriminate. }
  exists e. split; [exact E|]. rewrite E. cbn [fst]. apply deliver_to_wire. exact Hok.
Qed.

(* the concrete ways of not being a genuine head *)

(* (a) the body is not an intact box: any bit flipped, cut short, extended, random bytes *)
Lemma not_genuine_opaque k len n (rest : list chunk) : n <> 0 ->
  ~ genuine_head k (Raw (hdr_encode len) :: Opaque n :: rest).
Proof.
  intros Hn (hdr & mid & nn & m & r & H1 & H2 & _).
  pose proof (hdr_encode_length len) as Hl.
  destruct (hdr_encode len) as [|a h] eqn:Eh; [discriminate|].
  rewrite drop_empty_raw, read_raw_exact in H1 by (auto; discriminate).
  injection H1 as <- <-. cbn [drop_empty] in H2. destruct n; [contradiction | discriminate].
Qed.

(* (b) a frame sealed under another key: spliced in from a connection between other nodes or of another network *)
Lemma not_genuine_other_key k k' len n m (rest : list chunk) : k' <> k ->
  ~ genuine_head k (Raw (hdr_encode len) :: Box n (Sealed k' n m) :: rest).
Proof.
  intros Hk (hdr & mid & nn & m' & r & H1 & H2 & _).
  pose proof (hdr_encode_length len) as Hl.
  destruct (hdr_encode len) as [|a h] eqn:Eh; [discriminate|].
  rewrite drop_empty_raw, read_raw_exact in H1 by (auto; discriminate).
  injection H1 as <- <-. cbn [drop_empty] in H2. injection H2 as -> Hs _. congruence.
Qed.

(* (c) the clear length prefix was changed *)
Lemma not_genuine_header k len n c (rest : list chunk) : len < 4294967296 -> len <> NONCE_SIZE + ct_len c ->
  ~ genuine_head k (Raw (hdr_encode len) :: Box n c :: rest).
Proof.
  intros Hlt Hne (hdr & mid & nn & m' & r & H1 & H2 & H3).
  pose proof (hdr_encode_length len) as Hl.
  pose proof (hdr_decode_encode len Hlt) as Hd.
  destruct (hdr_encode len) as [|a h] eqn:Eh; [discriminate|].
  rewrite drop_empty_raw, read_raw_exact in H1 by (auto; discriminate).
  injection H1 as <- <-. cbn [drop_empty] in H2. injection H2 as -> -> _.
  apply Hne. rewrite <- Hd, H3. reflexivity.
Qed.

(* (d) the nonce field was replaced (for instance by the nonce of another frame) *)
Lemma not_genuine_nonce k k' len n n' m (rest : list chunk) : n' <> n ->
  ~ genuine_head k (Raw (hdr_encode len) :: Box n' (Sealed k' n m) :: rest).
Proof.
  intros Hk (hdr & mid & nn & m' & r & H1 & H2 & _).
  pose proof (hdr_encode_length len) as Hl.
  destruct (hdr_encode len) as [|a h] eqn:Eh; [discriminate|].
  rewrite drop_empty_raw, read_raw_exact in H1 by (auto; discriminate).
  injection H1 as <- <-. cbn [drop_empty] in H2. injection H2 as -> _ Hs _. congruence.
Qed.

(* (e) the length prefix is missing: the stream continues with ciphertext or junk *)
Lemma not_genuine_no_header k (c : chunk) (rest : list chunk) :
  (match c with Raw _ => False | Opaque n => n <> 0 | Box _ _ => True end) ->
  ~ genuine_head k (c :: rest).
Proof.
  intros Hc (hdr & mid & nn & m' & r & H1 & _).
  destruct c as [bs|n|n c]; [contradiction| |].
  - destruct n; [contradiction|]. cbn in H1. discriminate.
  - cbn in H1. discriminate.
Qed.

(* ---- what the receiver can ever deliver ---- *)

Definition no_box_under (k : key) (s : list chunk) : Prop := forall n m, ~ In (Box n (Sealed k n m)) s.

Lemma drop_empty_incl (s : list chunk) x : In x (drop_empty s) -> In x s.
Proof.
  induction s as [|c s IH]; [auto|]. intros H.
  destruct c as [[|b bs]|[|p]|n c]; cbn [drop_empty] in H; try exact H; right; apply IH; exact H.
Qed.

Lemma read_raw_incl_box (s : list chunk) : forall n x rest, read_raw s n = Got x rest ->
  forall w c, In (Box w c) rest -> In (Box w c) s.
Proof.
  induction s as [|ch s IH]; intros n x rest H w c Hin.
  - destruct n; cbn in H; [injection H as <- <-; exact Hin | discriminate].
  - destruct n; [cbn in H; injection H as <- <-; exact Hin|].
    destruct ch as [bs|q|nn cc].
    + cbn [read_raw] in H. destruct (Nat.leb (S n) (length bs)).
      * injection H as <- <-. destruct Hin as [Hin|Hin]; [discriminate | right; exact Hin].
      * destruct (read_raw s (S n - length bs)) eqn:E; try discriminate.
        injection H as <- <-. right. eapply IH; eauto.
    + cbn [read_raw] in H. destruct q; [|discriminate]. right. eapply IH; eauto.
    + cbn [read_raw] in H. discriminate.
Qed.

Lemma recv_step_accept_in k s wt d r : recv_step k s = SPkt wt d r ->
  exists n m, In (Box n (Sealed k n m)) s /\ payload_decode m = Some (wt, d) /\
              (forall w c, In (Box w c) r -> In (Box w c) s).
Proof.
  intros H. apply recv_step_accept_inv in H. destruct H as (hdr & mid & n & m & H1 & H2 & _ & _ & H5).
  exists n, m. split; [|split; [exact H5|]].
  - apply drop_empty_incl. eapply read_raw_incl_box; [exact H1|].
    apply drop_empty_incl. rewrite H2. left. reflexivity.
  - intros w c Hx. apply drop_empty_incl. eapply read_raw_incl_box; [exact H1|].
    apply drop_empty_incl. rewrite H2. right. exact Hx.
Qed.

(* nothing is delivered out of a stream that contains no box sealed under the receiver's key *)
Lemma recv_nothing_without_own_box k s : no_box_under k s -> forall fuel, fst (Frame.recv_loop key_eqb fuel k s) = [].
Proof.
  intros Hno [|f]; [reflexivity|]. cbn [Frame.recv_loop].
  destruct (recv_step k s) as [| |wt d r] eqn:E; try reflexivity.
  exfalso. apply recv_step_accept_in in E. destruct E as (n & m & Hin & _). exact (Hno n m Hin).
Qed.

(* every delivered packet is the plaintext of a box of the stream sealed under the receiver's key *)
Lemma recv_loop_delivers_only_boxes k : forall fuel s l e, Frame.recv_loop key_eqb fuel k s = (l, e) ->
  forall wt d, In (wt, d) l -> exists n m, In (Box n (Sealed k n m)) s /\ payload_decode m = Some (wt, d).
Proof.
  induction fuel as [|f IH]; intros s l e H wt d Hin.
  - cbn in H. injection H as <- <-. contradiction.
  - cbn [Frame.recv_loop] in H.
    destruct (recv_step k s) as [| |wt0 d0 r] eqn:E; try (injection H as <- <-; contradiction).
    destruct (Frame.recv_loop key_eqb f k r) as [l0 e0] eqn:E0. injection H as <- <-.
    apply recv_step_accept_in in E. destruct E as (n & m & Hb & Hp & Hsub).
    destruct Hin as [Heq|Hin].
    + injection Heq as <- <-. exists n, m. auto.
    + destruct (IH _ _ _ E0 _ _ Hin) as (n' & m' & Hb' & Hp'). exists n', m'. auto.
Qed.

(* ---- fuel ---- *)

Lemma drop_empty_length (s : list chunk) : (length (drop_empty s) <= length s)%nat.
Proof.
  induction s as [|c s IH]; [auto|].
  destruct c as [[|b bs]|[|p]|n c]; cbn [drop_empty length]; lia.
Qed.

Lemma read_raw_length (s : list chunk) : forall n x rest, read_raw s n = Got x rest -> (length rest <= length s)%nat.
Proof.
  induction s as [|ch s IH]; intros n x rest H.
  - destruct n; cbn in H; [injection H as <- <-; auto | discriminate].
  - destruct n; [cbn in H; injection H as <- <-; auto|].
    destruct ch as [bs|q|nn cc]; cbn [read_raw] in H.
    + destruct (Nat.leb (S n) (length bs)).
      * injection H as <- <-. cbn [length]. lia.
      * destruct (read_raw s (S n - length bs)) eqn:E; try discriminate.
        injection H as <- <-. apply IH in E. cbn [length]. lia.
    + destruct q; [|discriminate]. apply IH in H. cbn [length]. lia.
    + discriminate.
Qed.

Lemma recv_step_shrinks k s wt d r : recv_step k s = SPkt wt d r -> (length r < length s)%nat.
Proof.
  intros H. apply recv_step_accept_inv in H. destruct H as (hdr & mid & n & m & H1 & H2 & _).
  apply read_raw_length in H1.
  pose proof (drop_empty_length s). pose proof (drop_empty_length mid) as Hm. rewrite H2 in Hm. cbn [length] in Hm. lia.
Qed.

Lemma recv_loop_fuel k : forall fuel s, (length s < fuel)%nat -> snd (Frame.recv_loop key_eqb fuel k s) <> RFuel.
Proof.
  induction fuel as [|f IH]; intros s Hf; [lia|].
  cbn [Frame.recv_loop]. destruct (recv_step k s) as [| |wt d r] eqn:E; try discriminate.
  apply recv_step_shrinks in E. specialize (IH r ltac:(lia)).
  destruct (Frame.recv_loop key_eqb f k r). exact IH.
Qed.

Lemma recv_fuel_enough k s : snd (recv k s) <> RFuel.
Proof. apply recv_loop_fuel. lia. Qed.

(* ---- keys ---- *)

(* from here on the key agreement and the assumptions on X25519 and BLAKE3 (declared late so that the lemmas above
   visibly do not depend on them) *)
Context {sk pk sh : Type}.
Variable pub : sk -> pk.
Variable dh : sk -> pk -> sh.
Variable kdf : N -> sh -> key.
Variable pk_eqb : pk -> pk -> bool.
Variable pk_valid : pk -> bool.
Notation hs_accept := (hs_accept pub dh kdf pk_eqb pk_valid).
Hypothesis pk_eqb_spec : forall a b, pk_eqb a b = true <-> a = b.
Hypothesis dh_comm : forall a b, dh a (pub b) = dh b (pub a).
Hypothesis kdf_inj : forall n1 s1 n2 s2, kdf n1 s1 = kdf n2 s2 -> n1 = n2 /\ s1 = s2.
Hypothesis dh_pair_inj : forall a b a' b', dh a (pub b) = dh a' (pub b') ->
  (pub a = pub a' /\ pub b = pub b') \/ (pub a = pub b' /\ pub b = pub a').

Lemma pk_eqb_refl k : pk_eqb k k = true.
Proof. apply pk_eqb_spec. reflexivity. Qed.

Lemma hs_accept_key me h k : hs_accept me h = HsKey k ->
  k = kdf (nd_net me) (dh (nd_sk me) (h_id h)) /\ MIN_P2P_VERSION <= h_p2pver h /\
  ~ In (h_id h) (nd_conns me) /\ h_id h <> pub (nd_sk me) /\ pk_valid (h_id h) = true.
Proof.
  clear dh_comm kdf_inj dh_pair_inj.
  unfold Frame.hs_accept. intros H.
  destruct (N.ltb_spec (h_p2pver h) MIN_P2P_VERSION); [discriminate|].
  destruct (existsb (pk_eqb (h_id h)) (nd_conns me)) eqn:Ee; [discriminate|].
  destruct (pk_eqb (h_id h) (pub (nd_sk me))) eqn:Es; [discriminate|].
  destruct (pk_valid (h_id h)); [|discriminate]. cbn in H. injection H as <-.
  repeat split; auto.
  - intros Hin. assert (existsb (pk_eqb (h_id h)) (nd_conns me) = true); [|congruence].
    apply existsb_exists. exists (h_id h). split; [exact Hin | apply pk_eqb_refl].
  - intros Heq. rewrite Heq, pk_eqb_refl in Es. discriminate.
Qed.

Lemma hs_accept_ok me h : MIN_P2P_VERSION <= h_p2pver h -> ~ In (h_id h) (nd_conns me) ->
  h_id h <> pub (nd_sk me) -> pk_valid (h_id h) = true ->
  hs_accept me h = HsKey (kdf (nd_net me) (dh (nd_sk me) (h_id h))).
Proof.
  clear dh_comm kdf_inj dh_pair_inj.
  intros Hv Hd Hs Hk. unfold Frame.hs_accept.
  destruct (N.ltb_spec (h_p2pver h) MIN_P2P_VERSION); [lia|].
  destruct (existsb (pk_eqb (h_id h)) (nd_conns me)) eqn:Ee.
  { apply existsb_exists in Ee. destruct Ee as (x & Hx & He). apply pk_eqb_spec in He. subst x. contradiction. }
  destruct (pk_eqb (h_id h) (pub (nd_sk me))) eqn:Es.
  { apply pk_eqb_spec in Es. contradiction. }
  rewrite Hk. reflexivity.
Qed.

(* both ends of a connection inside one network derive the same key *)
Lemma key_agreement A B vA pA vB pB kA kB : nd_net A = nd_net B ->
  hs_accept A (hello_of pub B vB pB) = HsKey kA -> hs_accept B (hello_of pub A vA pA) = HsKey kB -> kA = kB.
Proof.
  intros Hn HA HB. apply hs_accept_key in HA. apply hs_accept_key in HB.
  destruct HA as [-> _]. destruct HB as [-> _]. cbn [hello_of h_id]. rewrite Hn, dh_comm. reflexivity.
Qed.

(* the key names the network and the unordered pair of node keys, and nothing else *)
Lemma key_scope n a b n' a' b' : kdf n (dh a (pub b)) = kdf n' (dh a' (pub b')) ->
  n = n' /\ ((pub a = pub a' /\ pub b = pub b') \/ (pub a = pub b' /\ pub b = pub a')).
Proof. intros H. apply kdf_inj in H. destruct H as [Hn Hs]. split; [exact Hn | apply dh_pair_inj; exact Hs]. Qed.

Lemma key_direction_free n a b : kdf n (dh a (pub b)) = kdf n (dh b (pub a)).
Proof. rewrite dh_comm. reflexivity. Qed.

Lemma key_differs_across_networks n x n' x' : n <> n' -> kdf n x <> kdf n' x'.
Proof. intros Hn H. apply kdf_inj in H. destruct H. contradiction. Qed.

(* the key is a function of (network id, own private key, peer id): nothing of the connection enters *)
Lemma key_not_per_connection me1 me2 h1 h2 k1 k2 :
  nd_sk me1 = nd_sk me2 -> nd_net me1 = nd_net me2 -> h_id h1 = h_id h2 ->
  hs_accept me1 h1 = HsKey k1 -> hs_accept me2 h2 = HsKey k2 -> k1 = k2.
Proof.
  intros Hs Hn Hi H1 H2. apply hs_accept_key in H1. apply hs_accept_key in H2.
  destruct H1 as [-> _]. destruct H2 as [-> _]. rewrite Hs, Hn, Hi. reflexivity.
Qed.

(* ---- end to end ---- *)

Notation endpoint_recv := (endpoint_recv pub dh kdf key_eqb pk_eqb pk_valid).
Notation endpoint_send := (endpoint_send pub dh kdf pk_eqb pk_valid).

Lemma endpoint_recv_open me h k s : hs_accept me h = HsKey k ->
  endpoint_recv me h s =
  (deliver (fst (recv k s)), match snd (recv k s) with RErr c => CsClosed c | _ => CsClosed 0 end).
Proof.
  intros H. unfold Frame.endpoint_recv, conn_step. rewrite H.
  destruct (recv k s) as [l e]. reflexivity.
Qed.

Lemma e2e_delivery A B vA pA vB pB pkts nonces :
  nd_net A = nd_net B ->
  (exists kA, hs_accept A (hello_of pub B vB pB) = HsKey kA) ->
  (exists kB, hs_accept B (hello_of pub A vA pA) = HsKey kB) ->
  Forall pkt_ok pkts -> length nonces = length pkts ->
  exists s, endpoint_send A (hello_of pub B vB pB) pkts nonces = Some s /\
            endpoint_recv B (hello_of pub A vA pA) s = (pkts, CsClosed 0).
Proof.
  intros Hn [kA HA] [kB HB] Hok Hl.
  pose proof (key_agreement _ _ _ _ _ _ _ _ Hn HA HB) as <-.
  exists (send kA pkts nonces). unfold Frame.endpoint_send. rewrite HA. split; [reflexivity|].
  rewrite (endpoint_recv_open _ _ _ _ HB).
  destruct (delivery_exact kA pkts nonces Hok Hl) as [E1 E2]. rewrite E2, E1. reflexivity.
Qed.

Lemma e2e_tamper A B vA pA vB pB k pkts nonces t :
  nd_net A = nd_net B ->
  hs_accept A (hello_of pub B vB pB) = HsKey k ->
  (exists kB, hs_accept B (hello_of pub A vA pA) = HsKey kB) ->
  Forall pkt_ok pkts -> length nonces = length pkts ->
  ~ genuine_head k t -> drop_empty t <> [] ->
  exists e, endpoint_recv B (hello_of pub A vA pA) (send k pkts nonces ++ t) = (pkts, CsClosed e) /\ e <> 0.
Proof.
  intros Hn HA [kB HB] Hok Hl Hng Hne.
  pose proof (key_agreement _ _ _ _ _ _ _ _ Hn HA HB) as <-.
  destruct (tamper_rejected k pkts nonces t Hok Hl Hng Hne) as (e & E1 & E2).
  rewrite (endpoint_recv_open _ _ _ _ HB). rewrite E2, E1. cbn [snd].
  exists e. split; [reflexivity|].
  (* the error codes of recv_step are all non-zero *)
  destruct (recv_step_not_genuine k t Hng Hne) as [e' He'].
  assert (e = e').
  { unfold send in E1.
    pose proof (recv_genuine_then k (map to_wire pkts) nonces t [] (RErr e')) as H.
    assert (Hw : Forall wire_ok (map to_wire pkts)).
    { apply Forall_forall. intros x Hx. apply in_map_iff in Hx. destruct Hx as (p & <- & Hp).
      apply to_wire_ok. rewrite Forall_forall in Hok. auto. }
    specialize (H Hw ltac:(rewrite map_length; exact Hl)).
    assert (Ht : recv k t = ([], RErr e')) by (unfold Frame.recv; cbn [Frame.recv_loop]; rewrite He'; reflexivity).
    specialize (H Ht ltac:(discriminate)). rewrite H in E1. congruence. }
  subst e'. clear - He'. unfold Frame.recv_step in He'.
  destruct (drop_empty t); [discriminate|].
  destruct (read_raw (c :: l) 4); try (injection He' as <-; discriminate).
  destruct (hdr_decode x); try (injection He' as <-; discriminate).
  destruct (read_body n rest); try (injection He' as <-; discriminate).
  destruct (aead_open k n0 c0); try (injection He' as <-; discriminate).
  destruct (payload_decode l0) as [[? ?]|]; [discriminate | injection He' as <-; discriminate].
Qed.

(* cross_network_silent: whatever nodes of network n1 ever sealed, recombined at will with clear and opaque bytes,
   no receiver keyed in another network n2 delivers anything out of it *)
Definition sealed_in_network (n1 : N) (s : list chunk) : Prop :=
  forall w c, In (Box w c) s -> match c with Sealed k _ _ => exists x, k = kdf n1 x | Junk _ => True end.

Lemma cross_network_stream n1 n2 y s : n1 <> n2 -> sealed_in_network n1 s ->
  fst (recv (kdf n2 y) s) = [].
Proof.
  intros Hn Hs. apply recv_nothing_without_own_box. intros n m Hin.
  specialize (Hs _ _ Hin). cbn in Hs. destruct Hs as [x Hx].
  apply kdf_inj in Hx. destruct Hx. congruence.
Qed.

Lemma send_wire_sealed_in k n1 x : k = kdf n1 x -> forall pkts nonces, sealed_in_network n1 (send_wire k pkts nonces).
Proof.
  intros -> pkts. induction pkts as [|[wt d] ps IH]; intros [|n ns] w c Hin; try contradiction.
  rewrite send_wire_cons in Hin. apply in_app_or in Hin. destruct Hin as [Hin|Hin].
  - cbn in Hin. destruct Hin as [Hin|[Hin|[]]]; [discriminate|]. unfold cipher_encrypt in Hin.
    injection Hin as <- <-. exists x. reflexivity.
  - exact (IH ns w c Hin).
Qed.

Lemma cross_network_silent A B vA pA vB pB kA kB : nd_net A <> nd_net B ->
  hs_accept A (hello_of pub B vB pB) = HsKey kA -> hs_accept B (hello_of pub A vA pA) = HsKey kB ->
  forall pkts nonces,
    fst (endpoint_recv B (hello_of pub A vA pA) (send kA pkts nonces)) = [] /\
    fst (endpoint_recv A (hello_of pub B vB pB) (send kB pkts nonces)) = [].
Proof.
  intros Hn HA HB pkts nonces.
  rewrite (endpoint_recv_open _ _ _ _ HB), (endpoint_recv_open _ _ _ _ HA). cbn [fst].
  apply hs_accept_key in HA. apply hs_accept_key in HB. destruct HA as [EA _]. destruct HB as [EB _].
  split.
  - rewrite EB, cross_network_stream with (n1 := nd_net A); [reflexivity | exact Hn |].
    unfold send. eapply send_wire_sealed_in. exact EA.
  - rewrite EA, cross_network_stream with (n1 := nd_net B); [reflexivity | congruence |].
    unfold send. eapply send_wire_sealed_in. exact EB.
Qed.

(* the first frame of a peer of another network already closes the connection *)
Lemma cross_network_first_frame_fails n1 n2 x y nonce wt d rest : n1 <> n2 ->
  exists e, recv_step (kdf n2 y) (seal_frame (kdf n1 x) nonce wt d ++ rest) = SErr e.
Proof.
  intros Hn. apply recv_step_not_genuine.
  - rewrite seal_frame_unfold. cbn [app]. apply not_genuine_other_key.
    apply key_differs_across_networks. exact Hn.
  - rewrite seal_frame_unfold. cbn [app].
    pose proof (hdr_encode_length (box_len (payload_encode wt d))) as Hl.
    destruct (hdr_encode (box_len (payload_encode wt d))); [discriminate Hl | discriminate].
Qed.

(* ---- refusals of the handshake ---- *)

Lemma self_and_duplicate_id_refused me h :
  h_id h = pub (nd_sk me) \/ In (h_id h) (nd_conns me) -> exists e, hs_accept me h = HsErr e.
Proof.
  intros H. destruct (hs_accept me h) as [k|e] eqn:E; [|exists e; reflexivity].
  apply hs_accept_key in E. destruct E as (_ & _ & Hd & Hs & _). destruct H; contradiction.
Qed.

Lemma self_refused_code me h : MIN_P2P_VERSION <= h_p2pver h -> ~ In (h_id h) (nd_conns me) ->
  h_id h = pub (nd_sk me) -> hs_accept me h = HsErr E_SELF.
Proof.
  clear dh_comm kdf_inj dh_pair_inj.
  intros Hv Hd Hs. unfold Frame.hs_accept.
  destruct (N.ltb_spec (h_p2pver h) MIN_P2P_VERSION); [lia|].
  destruct (existsb (pk_eqb (h_id h)) (nd_conns me)) eqn:Ee.
  { apply existsb_exists in Ee. destruct Ee as (x & Hx & He). apply pk_eqb_spec in He. subst x. contradiction. }
  rewrite Hs, pk_eqb_refl. reflexivity.
Qed.

Lemma duplicate_refused_code me h : MIN_P2P_VERSION <= h_p2pver h -> In (h_id h) (nd_conns me) ->
  hs_accept me h = HsErr E_DUPLICATE.
Proof.
  clear dh_comm kdf_inj dh_pair_inj.
  intros Hv Hd. unfold Frame.hs_accept.
  destruct (N.ltb_spec (h_p2pver h) MIN_P2P_VERSION); [lia|].
  assert (Ee : existsb (pk_eqb (h_id h)) (nd_conns me) = true).
  { apply existsb_exists. exists (h_id h). split; [exact Hd | apply pk_eqb_refl]. }
  rewrite Ee. reflexivity.
Qed.

(* ---- what the protocol does NOT give: statements about the code as it is (KNOWN_FINDINGS.json, property C14) ---- *)

(* reflection: a node accepts its own frames when they are sent back to it *)
Lemma reflection_accepted A vB pB (idB : pk) k pkts nonces :
  hs_accept A {| h_version := vB; h_p2pver := pB; h_id := idB; h_port := 0 |} = HsKey k ->
  Forall pkt_ok pkts -> length nonces = length pkts ->
  endpoint_recv A {| h_version := vB; h_p2pver := pB; h_id := idB; h_port := 0 |} (send k pkts nonces)
  = (pkts, CsClosed 0).
Proof.
  intros HA Hok Hl. rewrite (endpoint_recv_open _ _ _ _ HA).
  destruct (delivery_exact k pkts nonces Hok Hl) as [E1 E2]. rewrite E2, E1. reflexivity.
Qed.

(* a frame recorded on one connection is accepted on every later connection of the same two nodes *)
Lemma reconnect_splice_accepted A1 B1 A2 B2 vA pA vB pB k1 k2 pkts nonces :
  nd_sk A1 = nd_sk A2 -> nd_sk B1 = nd_sk B2 -> nd_net A1 = nd_net B1 -> nd_net A1 = nd_net A2 -> nd_net B1 = nd_net B2 ->
  hs_accept A1 (hello_of pub B1 vB pB) = HsKey k1 ->              (* first connection: A seals under k1 *)
  hs_accept B2 (hello_of pub A2 vA pA) = HsKey k2 ->              (* later connection: B opens under k2 *)
  Forall pkt_ok pkts -> length nonces = length pkts ->
  endpoint_recv B2 (hello_of pub A2 vA pA) (send k1 pkts nonces) = (pkts, CsClosed 0).
Proof.
  intros HsA HsB Hn1 HnA HnB H1 H2 Hok Hl.
  assert (k1 = k2).
  { apply hs_accept_key in H1. apply hs_accept_key in H2. destruct H1 as [-> _]. destruct H2 as [-> _].
    cbn [hello_of h_id]. rewrite <- HsA, <- HsB, <- HnB, <- Hn1. apply key_direction_free. }
  subst k2. rewrite (endpoint_recv_open _ _ _ _ H2).
  destruct (delivery_exact k1 pkts nonces Hok Hl) as [E1 E2]. rewrite E2, E1. reflexivity.
Qed.

(* a frame taken from a connection of another network or between another pair of nodes is not a genuine head *)
Lemma splice_other_connection_not_genuine n a b n' a' b' len nn m (rest : list chunk) :
  ~ (n = n' /\ ((pub a = pub a' /\ pub b = pub b') \/ (pub a = pub b' /\ pub b = pub a'))) ->
  ~ genuine_head (kdf n (dh a (pub b)))
      (Raw (hdr_encode len) :: Box nn (Sealed (kdf n' (dh a' (pub b'))) nn m) :: rest).
Proof.
  intros H. apply not_genuine_other_key. intros E. apply H. symmetry in E. apply key_scope in E. exact E.
Qed.

(* replay inside one connection (outside the wording of C14; recorded for completeness) *)
Lemma replay_accepted k n ty d : pkt_ok (ty, d) ->
  deliver (fst (recv k (send k [(ty, d)] [n] ++ send k [(ty, d)] [n]))) = [(ty, d); (ty, d)].
Proof.
  intros Hok.
  assert (E : send k [(ty, d)] [n] ++ send k [(ty, d)] [n] = send k [(ty, d); (ty, d)] [n; n]).
  { reflexivity. }
  rewrite E. apply delivery_exact; [constructor; [exact Hok | constructor; [exact Hok | constructor]] | reflexivity].
Qed.

End SymProofs.

(* frames_distinct needs nothing: the nonce is part of the frame *)
Lemma frames_distinct {key : Type} (k : key) n1 n2 wt1 d1 wt2 d2 :
  n1 <> n2 -> seal_frame k n1 wt1 d1 <> seal_frame k n2 wt2 d2.
Proof. intros Hn H. unfold seal_frame, cipher_encrypt in H. injection H. intros. contradiction. Qed.

Lemma seal_frame_injective {key : Type} (k : key) n1 n2 wt d :
  seal_frame k n1 wt d = seal_frame k n2 wt d <-> n1 = n2.
Proof.
  split; [|intros ->; reflexivity]. intros H. unfold seal_frame, cipher_encrypt in H. injection H. auto.
Qed.

(* the hypotheses are satisfiable: the free instance of Model/Frame.v *)
Lemma free_instance_ideal : ideal_crypto free_pub free_dh free_kdf free_key_eqb free_pk_eqb.
Proof.
  unfold ideal_crypto, free_pub, free_dh, free_kdf, free_key_eqb, free_pk_eqb.
  repeat split.
  - intros H. destruct a as [a1 [a2 a3]], b as [b1 [b2 b3]]. cbn [fst snd] in H.
    rewrite !andb_true_iff, !N.eqb_eq in H. destruct H as [[-> ->] ->]. reflexivity.
  - intros ->. destruct b as [b1 [b2 b3]]. cbn [fst snd]. rewrite !N.eqb_refl. reflexivity.
  - apply N.eqb_eq.
  - apply N.eqb_eq.
  - intros a b. f_equal; lia.
  - injection H. auto.
  - injection H. intros. subst. reflexivity.
  - intros a b a' b' H. injection H as H1 H2. lia.
Qed.
