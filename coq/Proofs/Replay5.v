(* Property C03 / C10, "the ledger is the replay of the main chain", fifth part: the premises about the transactions of
   the stored blocks reduced to what is not checked by the code.  Every stored block other than genesis passed
   PrevalidateBlock when it was delivered, hence each of its transactions passed Transaction.Prevalidate at the block's
   height: that gives the overflow-free total, a fee > 0 (fee >= rate * size with positive constants) and a staked
   amount > 0 (>= MIN_STAKE_AMOUNT > 0).  What remains a premise: uint64-typed amounts and the version byte of the
   payload kind (facts about the codec), the genesis block's own transactions, and the distinctness of the hashes. *)
From Coq Require Import Sorting.Sorted.
From Virel Require Import Lib.Config Lib.U64 Lib.AMap Lib.CheckLib Model.Emission Model.Ledger Model.Node Spec.Chain Spec.Rules
  Proofs.AMapLemmas Proofs.Emission Proofs.Conservation Proofs.Pointwise Proofs.Refine Proofs.Staking Proofs.StakedSum
  Proofs.Refine2 Proofs.NodeBasics Proofs.ForkChoice Proofs.Restart Proofs.ChainInv Proofs.ChainRun Proofs.ChainHeights
  Proofs.Undo Proofs.Undo2 Proofs.Undo4 Proofs.Replay1 Proofs.Replay2 Proofs.Replay3 Proofs.Replay4.
Open Scope N_scope.
Open Scope bool_scope.

Section Validated.
Variable cfg : config.
Variable genesis_addr team_key : N.

(* constants: minimum fees fit 64 bits and are positive, transactions have a positive size, stakes have a positive
   minimum *)
Definition cfg_ok_feepos : bool :=
  cfg_ok_fee cfg && (0 <? fee_per_byte cfg) && (0 <? fee_per_byte_v2 cfg) && (0 <? base_overhead cfg) && (0 <? min_stake cfg).

Lemma prevalidate_fee_pos t h : cfg_ok_feepos = true -> prevalidate_tx cfg team_key t h = Ok tt -> 0 < tx_fee t.
Proof.
  unfold cfg_ok_feepos, cfg_ok_fee. intros Hc H.
  repeat (apply Bool.andb_true_iff in Hc; destruct Hc as [Hc ?]).
  repeat match goal with Hx : (_ <? _) = true |- _ => apply N.ltb_lt in Hx end.
  unfold prevalidate_tx in H. guard_inv H. guard_inv H. guard_inv H. guard_inv H. clear H.
  apply N.leb_le in G, G2.
  set (rate := if hf_v3 cfg <=? h then fee_per_byte_v2 cfg else fee_per_byte cfg) in *.
  assert (Hr : rate * tx_vsize cfg t < two64) by (unfold rate; destruct (hf_v3 cfg <=? h); nia).
  rewrite wmul_small in G2 by exact Hr.
  assert (Hrp : 0 < rate) by (unfold rate; destruct (hf_v3 cfg <=? h); lia).
  assert (Hv : 0 < tx_vsize cfg t) by (unfold tx_vsize; lia).
  nia.
Qed.

Lemma prevalidate_txs_all ts h : prevalidate_txs cfg team_key ts h = Ok tt -> Forall (fun t => prevalidate_tx cfg team_key t h = Ok tt) ts.
Proof.
  induction ts as [|t ts IH]; cbn [prevalidate_txs]; intros H; [constructor|].
  bind_inv H. destruct a. constructor; [exact E|apply IH; exact H].
Qed.

Lemma prevalidate_block_txs b now : prevalidate_block cfg team_key b now = Ok tt -> prevalidate_txs cfg team_key (b_txs b) (b_height b) = Ok tt.
Proof.
  unfold prevalidate_block. intros H. guard_inv H. guard_inv H. guard_inv H. guard_inv H. guard_inv H.
  bind_inv H. destruct a. reflexivity.
Qed.

(* what a validated, well-typed transaction satisfies *)
Lemma validated_tx_c t h : cfg_ok_feepos = true ->
  wf_tx cfg t -> ver_ok t = true -> prevalidate_tx cfg team_key t h = Ok tt -> tx_c cfg t.
Proof.
  intros Hc Hwf Hver Hpre. split; [split; [exact Hwf|split; [|split; [|exact Hver]]]|].
  - destruct (prevalidate_total cfg team_key t h Hpre) as [tot ->]. discriminate.
  - exact (prevalidate_fee_pos t h Hc Hpre).
  - apply (prevalidate_stake_pos cfg team_key t h); [|exact Hpre].
    unfold cfg_ok_feepos in Hc. apply Bool.andb_true_iff in Hc. destruct Hc as [_ Hm]. apply N.ltb_lt in Hm. exact Hm.
Qed.

(* every stored block other than genesis passed stateless validation *)
Definition PVinv (gh : N) (n : node) : Prop :=
  forall h b, nget (blocks n) h = Some b -> h = gh \/ prevalidate_txs cfg team_key (b_txs b) (b_height b) = Ok tt.

Lemma add_block_store n b n' amb : add_block cfg genesis_addr n b = Ok (n', amb) -> blocks n' = nset (blocks n) (b_hash b) b.
Proof.
  intros H. unfold add_block in H. guard_inv H. opt_inv H. bind_inv H.
  destruct (prev_hash b =? top n).
  - bind_inv H. injection H as <- _. unfold add_mainchain_block in E1. bind_inv E1. injection E1 as <-.
    apply apply_block_node_eq in E2. destruct E2 as (l & ->). reflexivity.
  - unfold add_altchain_block in H. apply check_reorgs_blocks in H. rewrite H. reflexivity.
Qed.

Lemma deliver_PVinv gh n b now n' out amb :
  PVinv gh n -> deliver cfg genesis_addr team_key n b now = (n', out, amb) -> PVinv gh n'.
Proof.
  intros HP H. unfold deliver in H.
  destruct (prevalidate_block cfg team_key b now) as [[]|c|c] eqn:Epv; try (injection H as <- _ _; exact HP).
  destruct (add_block cfg genesis_addr n b) as [[n1 amb1]|c|c] eqn:E; try (injection H as <- _ _; exact HP).
  injection H as <- _ _. intros h x Hx. rewrite (add_block_store _ _ _ _ E), nget_nset in Hx.
  destruct (h =? b_hash b); [injection Hx as <-; right; apply (prevalidate_block_txs _ _ Epv)|apply (HP h x Hx)].
Qed.

Lemma run_PVinv gh ops : forall n, PVinv gh n -> PVinv gh (run cfg genesis_addr team_key n ops).
Proof.
  induction ops as [|[b now] ops IH]; intros n HP; cbn [run fold_left fst snd]; [exact HP|].
  destruct (deliver cfg genesis_addr team_key n b now) as [[n1 out] amb] eqn:E. cbn [fst snd].
  apply IH. eapply deliver_PVinv; eassumption.
Qed.

Theorem ledger_is_replay_validated g n0 ops :
  cfg_ok_emission cfg = true -> cfg_ok_feepos = true ->
  node0 cfg genesis_addr g = Ok n0 -> b_height g = 0 -> b_cd g = b_diff g ->
  N.of_nat (length ops) < two64 - 1 ->
  let n := run cfg genesis_addr team_key n0 ops in
  Forall (tx_c cfg) (b_txs g) ->
  (forall h b, get_block n h = Some b -> Forall (fun t => wf_tx cfg t /\ ver_ok t = true) (b_txs b)) ->
  (forall bs, up (b_hash g) (blocks n) (b_hash g) bs ->
     NoDup (bkeys g ++ flat_map bkeys bs) /\ c0 g + bnouts bs < two64 /\ c0 g + bntx bs < two64) ->
  exists lr, apply_chain cfg genesis_addr (ldg n0) (lbs n (mchain n)) = Ok lr /\
    same_accounts (ldg n) lr /\ dlgs (ldg n) = dlgs lr /\ staked (ldg n) = staked lr.
Proof.
  intros Hok Hfp H0 Hg0 Hcd Hlen n Hgen Htyped Hpaths.
  apply (ledger_is_replay cfg genesis_addr team_key g n0 ops Hok H0 Hg0 Hcd Hlen). fold n.
  split; [|exact Hpaths].
  assert (HP0 : PVinv (b_hash g) n0).
  { unfold node0 in H0. apply apply_block_node_eq in H0. destruct H0 as (l & ->).
    intros h b. cbn [blocks set_ldg]. unfold nget. cbn [aget].
    destruct (N.eqb_spec h (b_hash g)); [intros _; left; assumption|discriminate]. }
  pose proof (run_PVinv (b_hash g) ops n0 HP0) as HP. fold n in HP.
  destruct (reachable_invariants cfg genesis_addr team_key g n0 ops H0 Hg0 Hcd Hlen) as (((Hk & (gb & Hgb & _) & _) & _) & _).
  fold n in Hk, Hgb.
  assert (Hgg : nget (blocks n) (b_hash g) = Some g).
  { apply (run_store_le cfg genesis_addr team_key ops n0).
    unfold node0 in H0. apply apply_block_node_eq in H0. destruct H0 as (l & ->).
    cbn [blocks set_ldg]. unfold nget. cbn [aget]. rewrite N.eqb_refl. reflexivity. }
  intros h b Hb. destruct (HP h b Hb) as [->|Hpv].
  - rewrite Hgg in Hb. injection Hb as <-. exact Hgen.
  - pose proof (prevalidate_txs_all _ _ Hpv) as Hall. pose proof (Htyped h b Hb) as Hty.
    rewrite Forall_forall in *. intros t Hin. destruct (Hty t Hin) as [Hwf Hver].
    exact (validated_tx_c t (b_height b) Hfp Hwf Hver (Hall t Hin)).
Qed.

End Validated.
