(* Property C02, refinement of the transcription of ApplyTxToState to the declarative rules of Spec/Rules.v for the
   four staking kinds of transactions: delegate registration, delegate choice, stake, unstake.
   Whenever the model applies a stateless-valid transaction whose version byte is the one of its payload kind, the
   rules accept it (code 0) and prescribe exactly the same accounts, the same delegate table (as a LIST: same records,
   same order of records, same order of funds) and the same staked total. *)
From Virel Require Import Lib.Config Lib.U64 Lib.AMap Lib.CheckLib Model.Emission Model.Ledger Spec.Rules
  Proofs.AMapLemmas Proofs.Conservation Proofs.Pointwise Proofs.Refine Proofs.Staking Proofs.StakedSum.
Open Scope N_scope.
Open Scope bool_scope.

Lemma acct_at_put_dlg l d a : acct_at (put_dlg l d) a = acct_at l a. Proof. reflexivity. Qed.
Lemma acct_at_set_staked l v a : acct_at (set_staked l v) a = acct_at l a. Proof. reflexivity. Qed.
Lemma acct_at_set_dhist l v a : acct_at (set_dhist l v) a = acct_at l a. Proof. reflexivity. Qed.
Lemma acct_at_set_dlgs l v a : acct_at (set_dlgs l v) a = acct_at l a. Proof. reflexivity. Qed.

Lemma acct_at_of_get l a x : get_state l a = Some x -> acct_at l a = x.
Proof. intros H. unfold acct_at. rewrite H. reflexivity. Qed.

Lemma addr_of_key_odd k d : addr_of_key k <> delegate_addr d.
Proof. unfold addr_of_key, delegate_addr. lia. Qed.
Lemma addr_of_key_not_burn k : addr_of_key k <> burn_addr.
Proof. unfold addr_of_key, burn_addr. lia. Qed.

(* ---- domains of the account index ---- *)
Lemma apply_inputs_dom ins : forall l l' a,
  apply_inputs l ins = Ok l' -> get_state l' a <> None -> get_state l a <> None.
Proof.
  induction ins as [|[amt sender] ins IH]; intros l l' a H Ha; cbn [apply_inputs] in H.
  - injection H as <-. exact Ha.
  - opt_inv H. guard_inv H. specialize (IH _ _ a H Ha). rewrite get_state_put in IH.
    destruct (N.eqb_spec a sender) as [->|_]; [rewrite E; discriminate|exact IH].
Qed.

Lemma apply_outputs_dom outs : forall l bh txid l' a,
  no_pos outs -> apply_outputs l bh outs txid = (l', None) ->
  get_state l' a <> None -> get_state l a <> None \/ In a (map o_rcpt outs).
Proof.
  induction outs as [|o outs IH]; intros l bh txid l' a Hnp H Ha; cbn [apply_outputs] in H.
  - injection H as <-. left. exact Ha.
  - inversion Hnp as [|? ? Ho Hnp']; subst. rewrite Ho in H.
    destruct (safe_add _ (o_amt o)) as [b|]; [|discriminate H].
    destruct (IH _ _ _ _ a Hnp' H Ha) as [I|I]; [|right; right; exact I].
    rewrite get_state_put in I. destruct (N.eqb_spec a (o_rcpt o)) as [->|_]; [right; left; reflexivity|left; exact I].
Qed.

Section Refine2.
Variable cfg : config.
Variable team_key : N.

Notation sgn t := (addr_of_key (tx_signer t)).

(* the kind-specific part of ApplyTxToState *)
Definition kind_part (l : ledger) (t : tx) (st : acct) (top_h : N) : res (ledger * acct) :=
  match tx_data t with
  | TStake a id pu =>
      if tx_version t =? 4 then
        _ <- guard (negb (id =? 0)) 363 ;; _ <- guard (deleg st =? id) 364 ;;
        l1 <- apply_stake cfg l a id pu (sgn t) top_h (tx_id t) false ;; Ok (l1, st)
      else Ok (l, st)
  | TUnstake a id =>
      if tx_version t =? 5 then
        _ <- guard (negb (id =? 0)) 365 ;; _ <- guard (deleg st =? id) 366 ;;
        l1 <- apply_unstake l a id (sgn t) top_h (tx_id t) false 0 ;; Ok (l1, st)
      else Ok (l, st)
  | TRegister _ name id =>
      if tx_version t =? 2 then
        _ <- guard (match get_dlg l id with Some _ => false | None => true end) 367 ;;
        Ok (put_dlg l (mkdlg id (tx_signer t) name []), st)
      else Ok (l, st)
  | TSetDelegate new prev =>
      if tx_version t =? 3 then
        _ <- guard (prev =? deleg st) 368 ;;
        _ <- guard (match get_dlg l prev with
                    | Some d => match find_fund (d_funds d) (sgn t) with Some _ => false | None => true end
                    | None => true end) 369 ;;
        _ <- guard (match get_dlg l new with Some _ => true | None => false end) 370 ;;
        Ok (l, mkacct (bal st) (nonce st) (inc st) new)
      else Ok (l, st)
  | TTransfer _ => Ok (l, st)
  end.

Lemma apply_tx_unfold l t h bh top_h :
  apply_tx cfg l t h bh top_h =
  (st <- of_opt (get_state l (sgn t)) 361 ;;
   _ <- guard (tx_nonce t =? wadd (nonce st) 1) 362 ;;
   r1 <- kind_part l t st top_h ;;
   let '(l1, st1) := r1 in
   let st2 := mkacct (bal st1) (wadd (nonce st1) 1) (inc st1) (deleg st1) in
   let l2 := put_state l1 (sgn t) st2 in
   l3 <- apply_inputs l2 (state_inputs cfg t (sgn t)) ;;
   outs <- state_outputs cfg t (sgn t) ;;
   let l4 := fst (apply_outputs l3 bh outs (tx_id t)) in
   let l5 := set_outtx l4 (pset (outtx l4) (sgn t, nonce st2) (tx_id t)) in
   Ok (set_txh l5 (nset (txh l5) (tx_id t) h))).
Proof. reflexivity. Qed.

Lemma kind_part_frame l t st top_h lk stk :
  kind_part l t st top_h = Ok (lk, stk) ->
  accts lk = accts l /\ bal stk = bal st /\ nonce stk = nonce st /\ inc stk = inc st.
Proof.
  unfold kind_part. intros E0. destruct (tx_data t) as [os|nl name id|nw pv|a id pu|a id].
  - injection E0 as <- <-. repeat split; reflexivity.
  - destruct (tx_version t =? 2); [|injection E0 as <- <-; repeat split; reflexivity].
    guard_inv E0. injection E0 as <- <-. repeat split; reflexivity.
  - destruct (tx_version t =? 3); [|injection E0 as <- <-; repeat split; reflexivity].
    guard_inv E0. guard_inv E0. guard_inv E0. injection E0 as <- <-. repeat split; reflexivity.
  - destruct (tx_version t =? 4); [|injection E0 as <- <-; repeat split; reflexivity].
    guard_inv E0. guard_inv E0. bind_inv E0. injection E0 as <- <-.
    split; [eapply accts_apply_stake; eassumption|repeat split; reflexivity].
  - destruct (tx_version t =? 5); [|injection E0 as <- <-; repeat split; reflexivity].
    guard_inv E0. guard_inv E0. bind_inv E0. injection E0 as <- <-.
    split; [eapply accts_apply_unstake; eassumption|repeat split; reflexivity].
Qed.

(* The effect of ApplyTxToState on the accounts, for every kind: the signer's nonce (and delegate choice), the inputs
   taken, the outputs credited; the delegate table and staked total are those left by the kind-specific part. *)
Lemma apply_tx_shape l t h bh top_h l' tot :
  total_bal l < two64 -> wf_tx cfg t -> tx_total cfg t = Some tot ->
  apply_tx cfg l t h bh top_h = Ok l' ->
  exists x lk stk outs,
    get_state l (sgn t) = Some x /\ tx_nonce t = wadd (nonce x) 1 /\
    kind_part l t x top_h = Ok (lk, stk) /\
    state_outputs cfg t (sgn t) = Ok outs /\ no_pos outs /\
    sum_ins (state_inputs cfg t (sgn t)) = sum_souts outs + tx_fee t /\
    sum_ins (state_inputs cfg t (sgn t)) < two64 /\
    (nonce x + 1 < two64 -> (forall a, inc (acct_at l a) + out_cnt outs a < two64) ->
      (forall a, acct_at l' a =
         let base := if a =? sgn t then mkacct (bal x) (nonce x + 1) (inc x) (deleg stk) else acct_at l a in
         mkacct (bal base - in_sum (state_inputs cfg t (sgn t)) a + out_sum outs a) (nonce base)
                (inc base + out_cnt outs a) (deleg base)) /\
      (forall a, in_sum (state_inputs cfg t (sgn t)) a <= bal (acct_at l a)) /\
      dlgs l' = dlgs lk /\ staked l' = staked lk /\
      (forall a, get_state l' a <> None <-> (get_state l a <> None \/ In a (map o_rcpt outs)))).
Proof.
  intros Hb Hwf Htot Happ. rewrite apply_tx_unfold in Happ.
  set (signer := sgn t) in *.
  opt_inv Happ. guard_inv Happ. apply N.eqb_eq in G.
  bind_inv Happ. destruct a as [lk stk].
  destruct (kind_part_frame _ _ _ _ _ _ E0) as (Ha1 & Kb & Kn & Ki).
  set (st2 := mkacct (bal stk) (wadd (nonce stk) 1) (inc stk) (deleg stk)) in *.
  set (l2 := put_state lk signer st2) in *.
  bind_inv Happ. bind_inv Happ. injection Happ as <-.
  rename a into l3. rename a0 into outs.
  exists x, lk, stk, outs.
  assert (Hx : acct_at l signer = x) by (apply acct_at_of_get; exact E).
  destruct (ins_outs_balance cfg t signer tot outs Hwf Htot E2) as (Hbal & Hin64 & Hnp).
  split; [first [exact E|reflexivity]|]. split; [exact G|]. split; [first [exact E0|reflexivity]|]. split; [first [exact E2|reflexivity]|].
  split; [exact Hnp|]. split; [exact Hbal|]. split; [exact Hin64|].
  intros Hnonce Hinc.
  assert (Hget_k : forall a, get_state lk a = get_state l a) by (intros a; unfold get_state; rewrite Ha1; reflexivity).
  assert (Hacct_k : forall a, acct_at lk a = acct_at l a) by (intros a; unfold acct_at; rewrite Hget_k; reflexivity).
  assert (Htk : total_bal lk = total_bal l) by (unfold total_bal; rewrite Ha1; reflexivity).
  pose proof (apply_inputs_total _ _ _ E1) as Hin.
  destruct (apply_inputs_pointwise _ _ _ E1) as (P1 & P2 & P3 & P4 & P5 & P6 & P7).
  assert (Ht2 : total_bal l2 = total_bal l).
  { pose proof (total_put_state lk signer st2) as Hp. fold l2 in Hp.
    unfold bal_at in Hp. rewrite Hget_k, E in Hp. cbn [fopt bal st2] in Hp. lia. }
  assert (Hacct2 : forall a, acct_at l2 a = if a =? signer then st2 else acct_at l a).
  { intros a. unfold l2. rewrite acct_at_put, Hacct_k. reflexivity. }
  pose proof (apply_outputs_noerr outs l3 bh (tx_id t) ltac:(lia) Hnp) as Hne.
  destruct (apply_outputs l3 bh outs (tx_id t)) as [l4 e] eqn:Eao. cbn [snd fst] in *. subst e.
  assert (Hinc3 : forall a, inc (acct_at l3 a) + out_cnt outs a < two64).
  { intros a. rewrite P1. cbn [inc]. rewrite Hacct2. specialize (Hinc a).
    destruct (N.eqb_spec a signer) as [Ea|_]; [cbn [inc st2]; rewrite Ki, <- Hx, <- Ea; exact Hinc|lia]. }
  destruct (apply_outputs_pointwise outs l3 bh (tx_id t) l4 Hnp ltac:(lia) Hinc3 Eao) as (A1 & A2 & A3 & A4 & A5 & A6).
  split; [|split; [|split; [|split]]].
  - intros a. rewrite acct_at_set_txh_gen, acct_at_set_outtx_gen, A1, P1. cbn [bal nonce inc deleg].
    rewrite Hacct2. cbv zeta.
    destruct (N.eqb_spec a signer) as [Ea|Hne'].
    + cbn [bal nonce inc deleg st2]. rewrite Kn, Kb, Ki, wadd_small by lia. reflexivity.
    + reflexivity.
  - intros a. specialize (P2 a). rewrite Hacct2 in P2.
    destruct (N.eqb_spec a signer) as [Ea|_]; [|exact P2].
    cbn [bal st2] in P2. rewrite Kb in P2. replace (acct_at l a) with x by (rewrite Ea; symmetry; exact Hx). exact P2.
  - cbn [set_txh set_outtx dlgs]. rewrite A2, P3. reflexivity.
  - cbn [set_txh set_outtx staked]. rewrite A3, P4. reflexivity.
  - intros a. change (get_state (set_txh (set_outtx l4 _) _) a) with (get_state l4 a). split.
    + intros Ha. destruct (apply_outputs_dom outs l3 bh (tx_id t) l4 a Hnp Eao Ha) as [I|I]; [left|right; exact I].
      pose proof (apply_inputs_dom _ _ _ a E1 I) as I2. unfold l2 in I2. rewrite get_state_put, Hget_k in I2.
      destruct (N.eqb_spec a signer) as [->|_]; [rewrite E; discriminate|exact I2].
    + intros [Ha|Ha].
      * apply A6. apply P7. unfold l2. rewrite get_state_put, Hget_k. destruct (a =? signer); [discriminate|exact Ha].
      * apply in_map_iff in Ha. destruct Ha as (o & <- & Ho). apply A5. exact Ho.
Qed.

(* ---- what stateless validation gives ---- *)
Lemma prevalidate_total t h : prevalidate_tx cfg team_key t h = Ok tt -> exists tot, tx_total cfg t = Some tot.
Proof.
  unfold prevalidate_tx. intros H.
  guard_inv H. guard_inv H. guard_inv H. guard_inv H. guard_inv H. bind_inv H. opt_inv H.
  exists x. reflexivity.
Qed.

Lemma prevalidate_kind t h : prevalidate_tx cfg team_key t h = Ok tt ->
  match tx_data t with
  | TTransfer outs => (negb (N.of_nat (length outs) =? 0) && (N.of_nat (length outs) <=? max_outputs cfg)) = true
  | TRegister nl _ id => (nl <=? 16) = true /\ negb (id =? 0) = true /\ (negb (id =? 1) || (tx_signer t =? team_key)) = true
  | TSetDelegate _ _ => True
  | TStake a _ _ => (min_stake cfg <=? a) = true
  | TUnstake a _ => (tx_fee t <=? a) = true
  end.
Proof.
  unfold prevalidate_tx. intros H.
  guard_inv H. guard_inv H. guard_inv H. guard_inv H. guard_inv H. bind_inv H. clear H.
  destruct (tx_data t) as [os|nl name id|nw pv|sa id pu|sa id].
  - unfold guard in E. destruct (negb (N.of_nat (length os) =? 0) && _); [reflexivity|discriminate].
  - guard_inv E. guard_inv E. unfold guard in E. destruct (negb (id =? 1) || _); [repeat split|discriminate].
  - exact I.
  - unfold guard in E. destruct (min_stake cfg <=? sa); [reflexivity|discriminate].
  - unfold guard in E. destruct (tx_fee t <=? sa); [reflexivity|discriminate].
Qed.

(* the version byte is the one of the payload kind (Transaction.Deserialize chooses the payload type from the version
   byte, so this holds of every transaction read from the wire or the database) *)
Definition ver_ok (t : tx) : bool :=
  (tx_version t =? 0) && (data_version (tx_data t) =? 1) || (tx_version t =? data_version (tx_data t)).

Lemma pre_common_ok l t h x :
  cfg_ok_fee cfg = true ->
  prevalidate_tx cfg team_key t h = Ok tt ->
  get_state l (sgn t) = Some x -> tx_nonce t = wadd (nonce x) 1 -> nonce x + 1 < two64 ->
  ver_ok t = true ->
  pre_common cfg l t h = 0.
Proof.
  intros Hcfg Hpre Hx Hn Hn64 Hver.
  unfold cfg_ok_fee in Hcfg. apply Bool.andb_true_iff in Hcfg. destruct Hcfg as [Hf1 Hf2].
  apply N.ltb_lt in Hf1, Hf2.
  unfold prevalidate_tx in Hpre.
  guard_inv Hpre. guard_inv Hpre. guard_inv Hpre. guard_inv Hpre. guard_inv Hpre. clear Hpre.
  unfold pre_common. cbn [first_fail].
  unfold sig_valid in G3. rewrite G3. rewrite Hx. unfold acct_of. rewrite Hx.
  rewrite Hn, wadd_small, N.eqb_refl by exact Hn64.
  assert (Hfee : (min_fee cfg t h <=? tx_fee t) = true).
  { apply N.leb_le. unfold min_fee. apply N.leb_le in G2. apply N.leb_le in G.
    set (rate := if hf_v3 cfg <=? h then fee_per_byte_v2 cfg else fee_per_byte cfg) in *.
    assert (Hr : rate * tx_vsize cfg t < two64).
    { unfold rate. destruct (hf_v3 cfg <=? h); nia. }
    rewrite wmul_small in G2 by exact Hr. exact G2. }
  rewrite Hfee, G, G0, G1. cbn [negb]. unfold ver_ok in Hver. rewrite Hver. reflexivity.
Qed.

(* ---------------- delegate registration (version 2) ---------------- *)
Theorem register_refines l t nl name id h bh top_h l1 :
  cfg_ok_fee cfg = true ->
  tx_data t = TRegister nl name id -> tx_version t = 2 ->
  total_bal l < two64 -> wf_tx cfg t ->
  (forall a, inc (acct_at l a) + 1 < two64) ->
  nonce (acct_at l (sgn t)) + 1 < two64 ->
  prevalidate_tx cfg team_key t h = Ok tt ->
  apply_tx cfg l t h bh top_h = Ok l1 ->
  let '(c, ls) := spec_tx cfg team_key l t h in
  c = 0 /\ same_accounts l1 ls /\ dlgs l1 = dlgs ls /\ staked l1 = staked ls.
Proof.
  intros Hcfg Hd Hver Hb Hwf Hinc Hnonce Hpre Happ.
  destruct (prevalidate_total _ _ Hpre) as [tot Htot].
  pose proof (prevalidate_kind _ _ Hpre) as Hk. rewrite Hd in Hk. destruct Hk as (K1 & K2 & K3).
  destruct (apply_tx_shape _ _ _ _ _ _ _ Hb Hwf Htot Happ)
    as (x & lk & stk & outs & Hx & Hn & Hkp & Hso & Hnp & Hbal & Hin64 & Hrest).
  set (signer := sgn t) in *.
  pose proof (acct_at_of_get _ _ _ Hx) as Hax. rewrite Hax in Hnonce.
  unfold kind_part in Hkp. rewrite Hd, Hver in Hkp. change (2 =? 2) with true in Hkp. cbv iota in Hkp.
  guard_inv Hkp. injection Hkp as <- <-.
  destruct (get_dlg l id) as [dd|] eqn:Eg; [discriminate G|]. clear G.
  unfold state_outputs in Hso. rewrite Hd in Hso. injection Hso as <-.
  unfold state_inputs in *. rewrite Hd in *.
  cbn [sum_ins sum_souts fold_right fst snd o_amt] in Hbal, Hin64.
  assert (Hc : forall a, inc (acct_at l a) + out_cnt [mksout OUT_NORMAL (register_burn cfg) burn_addr 0] a < two64).
  { intros a. cbn [out_cnt fold_right o_rcpt]. specialize (Hinc a). destruct (burn_addr =? a); lia. }
  destruct (Hrest Hnonce Hc) as (R1 & R2 & R3 & R4 & _). clear Hrest Hc.
  pose proof (R2 signer) as Hbx. cbn [in_sum fold_right fst snd] in Hbx. rewrite N.eqb_refl, Hax in Hbx.
  (* the rules *)
  unfold spec_tx. fold signer.
  rewrite (pre_common_ok l t h x Hcfg Hpre Hx Hn Hnonce)
    by (unfold ver_ok; rewrite Hd, Hver; reflexivity).
  cbn [negb N.eqb]. rewrite Hd. change acct_of with acct_at. rewrite Hax.
  cbn [first_fail]. rewrite K1, K2, K3, Eg.
  assert (Hc25 : (register_burn cfg + tx_fee t <=? bal x) = true) by (apply N.leb_le; lia).
  rewrite Hc25. cbn [negb N.eqb].
  split; [reflexivity|]. split; [|split].
  - intros a. rewrite R1. cbv zeta. cbn [in_sum out_sum out_cnt fold_right fst snd o_amt o_rcpt deleg].
    rewrite acct_at_put_dlg, acct_at_credit, !acct_at_debit.
    rewrite !acct_at_set_txh_gen, !acct_at_set_outtx_gen, !acct_at_put.
    change acct_of with acct_at. rewrite !N.eqb_refl, ?Hax. cbn [bal nonce inc deleg].
    pose proof (addr_of_key_not_burn (tx_signer t)) as Hsb. fold signer in Hsb.
    destruct (N.eqb_spec burn_addr signer) as [Ebs|_]; [congruence|].
    destruct (N.eqb_spec a signer) as [Ea|Hne].
    + rewrite Ea. destruct (N.eqb_spec signer signer) as [_|?]; [|congruence].
      destruct (N.eqb_spec burn_addr signer) as [?|_]; [congruence|].
      destruct (N.eqb_spec signer burn_addr) as [?|_]; [congruence|].
      cbn [bal nonce inc deleg]. f_equal; lia.
    + destruct (N.eqb_spec signer a) as [?|_]; [congruence|].
      destruct (N.eqb_spec burn_addr a) as [Eb|Hnb].
      * rewrite <- Eb, N.eqb_refl. cbn [bal nonce inc deleg]. f_equal; lia.
      * destruct (N.eqb_spec a burn_addr) as [?|_]; [congruence|].
        destruct (acct_at l a) as [b0 n0 i0 d0]; cbn [bal nonce inc deleg]. f_equal; lia.
  - rewrite R3. reflexivity.
  - rewrite R4. reflexivity.
Qed.

(* ---------------- delegate choice (version 3) ---------------- *)
Theorem set_delegate_refines l t nw pv h bh top_h l1 :
  cfg_ok_fee cfg = true ->
  tx_data t = TSetDelegate nw pv -> tx_version t = 3 ->
  total_bal l < two64 -> wf_tx cfg t ->
  (forall a, inc (acct_at l a) + 1 < two64) ->
  nonce (acct_at l (sgn t)) + 1 < two64 ->
  prevalidate_tx cfg team_key t h = Ok tt ->
  apply_tx cfg l t h bh top_h = Ok l1 ->
  let '(c, ls) := spec_tx cfg team_key l t h in
  c = 0 /\ same_accounts l1 ls /\ dlgs l1 = dlgs ls /\ staked l1 = staked ls.
Proof.
  intros Hcfg Hd Hver Hb Hwf Hinc Hnonce Hpre Happ.
  destruct (prevalidate_total _ _ Hpre) as [tot Htot].
  destruct (apply_tx_shape _ _ _ _ _ _ _ Hb Hwf Htot Happ)
    as (x & lk & stk & outs & Hx & Hn & Hkp & Hso & Hnp & Hbal & Hin64 & Hrest).
  set (signer := sgn t) in *.
  pose proof (acct_at_of_get _ _ _ Hx) as Hax. rewrite Hax in Hnonce.
  unfold kind_part in Hkp. rewrite Hd, Hver in Hkp. change (3 =? 3) with true in Hkp. cbv iota in Hkp.
  fold signer in Hkp.
  guard_inv Hkp. guard_inv Hkp. guard_inv Hkp. injection Hkp as <- <-.
  unfold state_outputs in Hso. rewrite Hd in Hso. injection Hso as <-.
  unfold state_inputs in *. rewrite Hd in *.
  assert (Hc : forall a, inc (acct_at l a) + out_cnt [] a < two64).
  { intros a. cbn [out_cnt fold_right]. specialize (Hinc a). lia. }
  destruct (Hrest Hnonce Hc) as (R1 & R2 & R3 & R4 & _). clear Hrest Hc.
  pose proof (R2 signer) as Hbx. cbn [in_sum fold_right fst snd] in Hbx. rewrite N.eqb_refl, Hax in Hbx.
  unfold spec_tx. fold signer.
  rewrite (pre_common_ok l t h x Hcfg Hpre Hx Hn Hnonce)
    by (unfold ver_ok; rewrite Hd, Hver; reflexivity).
  cbn [negb N.eqb]. rewrite Hd. change acct_of with acct_at. rewrite Hax.
  cbn [first_fail]. unfold fund_of. rewrite G, G0, G1.
  assert (Hc34 : (tx_fee t <=? bal x) = true) by (apply N.leb_le; lia).
  rewrite Hc34. cbn [negb N.eqb].
  split; [reflexivity|]. split; [|split].
  - intros a. rewrite R1. cbv zeta. cbn [in_sum out_sum out_cnt fold_right fst snd deleg].
    rewrite !acct_at_debit.
    rewrite !acct_at_set_txh_gen, !acct_at_set_outtx_gen, !acct_at_put.
    change acct_of with acct_at. rewrite !N.eqb_refl, ?Hax. cbn [bal nonce inc deleg].
    destruct (N.eqb_spec a signer) as [Ea|Hne].
    + rewrite Ea, N.eqb_refl. cbn [bal nonce inc deleg]. f_equal; lia.
    + destruct (N.eqb_spec signer a) as [?|_]; [congruence|].
      destruct (acct_at l a) as [b0 n0 i0 d0]; cbn [bal nonce inc deleg]. f_equal; lia.
  - rewrite R3. reflexivity.
  - rewrite R4. reflexivity.
Qed.

(* ---------------- stake (version 4) ---------------- *)
(* bound on every fund given by the invariant *)
Lemma SInv_fund_bound l id d signer f :
  SInv l -> get_dlg l id = Some d -> find_fund (d_funds d) signer = Some f -> f_amt f <= staked l /\ staked l < two64.
Proof.
  intros (_ & _ & Hsum & Hs64) Hg Hf.
  pose proof (nget_le_sum _ _ _ Hg) as Hle. change (tot d) with (ftot (d_funds d)) in Hle.
  pose proof (find_fund_le _ _ _ Hf) as Hfl. split; [lia|exact Hs64].
Qed.

Lemma apply_stake_exact l amt id pu signer top_h txid l' :
  SInv l -> amt < two64 -> top_h + unlock_time cfg < two64 ->
  apply_stake cfg l amt id pu signer top_h txid false = Ok l' ->
  exists d, get_dlg l id = Some d /\
    (match fund_of d signer with Some f => f_unlock f =? pu | None => true end) = true /\
    staked l + amt < two64 /\
    l' = put_dlg (set_staked l (staked l + amt))
           (set_fund d signer
              (Some (mkfund signer ((match fund_of d signer with Some f => f_amt f | None => 0 end) + amt)
                            (top_h + unlock_time cfg)))).
Proof.
  intros HI Ha64 Hu H. pose proof HI as (Hsort & Hkey & Hsum & Hs64). unfold apply_stake in H.
  destruct (get_dlg l id) as [d|] eqn:Eg; cbn [of_opt bind] in H; [|discriminate H].
  bind_inv H. bind_inv H. injection H as <-.
  destruct (stats_staked_exact _ _ _ Hs64 Ha64 E0) as [-> H64].
  exists d. split; [reflexivity|]. unfold set_fund, fund_of.
  rewrite wadd_small in E by exact Hu.
  destruct (find_fund (d_funds d) signer) as [f|] eqn:Ef.
  - guard_inv E. opt_inv E. injection E as <-. cbn [orb] in G.
    destruct (SInv_fund_bound l id d signer f HI Eg Ef) as [Hfb _].
    apply safe_add_some in E1; [|lia|exact Ha64]. destruct E1 as [-> _].
    split; [exact G|]. split; [exact H64|reflexivity].
  - cbv iota in E. injection E as <-. split; [reflexivity|]. split; [exact H64|]. rewrite N.add_0_l. reflexivity.
Qed.

Theorem stake_refines l t amt id pu h bh top_h l1 :
  cfg_ok_fee cfg = true ->
  tx_data t = TStake amt id pu -> tx_version t = 4 ->
  total_bal l < two64 -> wf_tx cfg t -> SInv l ->
  (forall a, inc (acct_at l a) + 1 < two64) ->
  nonce (acct_at l (sgn t)) + 1 < two64 ->
  top_h = h - 1 -> h - 1 + unlock_time cfg < two64 ->
  prevalidate_tx cfg team_key t h = Ok tt ->
  apply_tx cfg l t h bh top_h = Ok l1 ->
  let '(c, ls) := spec_tx cfg team_key l t h in
  c = 0 /\ same_accounts l1 ls /\ dlgs l1 = dlgs ls /\ staked l1 = staked ls.
Proof.
  intros Hcfg Hd Hver Hb Hwf HI Hinc Hnonce Htop Hul Hpre Happ. subst top_h.
  destruct (prevalidate_total _ _ Hpre) as [tot Htot].
  pose proof (prevalidate_kind _ _ Hpre) as K. rewrite Hd in K.
  destruct (apply_tx_shape _ _ _ _ _ _ _ Hb Hwf Htot Happ)
    as (x & lk & stk & outs & Hx & Hn & Hkp & Hso & Hnp & Hbal & Hin64 & Hrest).
  set (signer := sgn t) in *.
  pose proof (acct_at_of_get _ _ _ Hx) as Hax. rewrite Hax in Hnonce.
  assert (Ha64 : amt < two64) by (destruct Hwf as (_ & Hwd & _); rewrite Hd in Hwd; exact Hwd).
  unfold kind_part in Hkp. rewrite Hd, Hver in Hkp. change (4 =? 4) with true in Hkp. cbv iota in Hkp.
  fold signer in Hkp.
  guard_inv Hkp. guard_inv Hkp. bind_inv Hkp. injection Hkp as <- <-.
  destruct (apply_stake_exact _ _ _ _ _ _ _ _ HI Ha64 Hul E) as (d & Hget & H44 & Hst64 & ->). clear E.
  unfold state_outputs in Hso. rewrite Hd in Hso. injection Hso as <-.
  unfold state_inputs in *. rewrite Hd in *. fold signer in Hbal, Hin64, Hrest.
  cbn [sum_ins sum_souts fold_right fst snd o_amt] in Hbal, Hin64.
  assert (Hc : forall a, inc (acct_at l a) + out_cnt [mksout OUT_STAKE amt (delegate_addr id) id] a < two64).
  { intros a. cbn [out_cnt fold_right o_rcpt]. specialize (Hinc a). destruct (delegate_addr id =? a); lia. }
  destruct (Hrest Hnonce Hc) as (R1 & R2 & R3 & R4 & _). clear Hrest Hc.
  pose proof (R2 signer) as Hbx. cbn [in_sum fold_right fst snd] in Hbx. rewrite N.eqb_refl, Hax in Hbx.
  unfold spec_tx. fold signer.
  rewrite (pre_common_ok l t h x Hcfg Hpre Hx Hn Hnonce)
    by (unfold ver_ok; rewrite Hd, Hver; reflexivity).
  cbn [negb N.eqb]. rewrite Hd, Hget. change acct_of with acct_at. rewrite Hax.
  cbn [first_fail]. rewrite K, G, G0, H44.
  assert (Hc45 : ((amt + tx_fee t <? two64) && (amt + tx_fee t <=? bal x)) = true).
  { apply Bool.andb_true_iff. split; [apply N.ltb_lt|apply N.leb_le]; lia. }
  rewrite Hc45. cbn [negb N.eqb].
  split; [reflexivity|]. split; [|split].
  - intros a. rewrite R1. cbv zeta. cbn [in_sum out_sum out_cnt fold_right fst snd o_amt o_rcpt deleg].
    rewrite acct_at_set_staked, acct_at_put_dlg, acct_at_credit, !acct_at_debit.
    rewrite !acct_at_set_txh_gen, !acct_at_set_outtx_gen, !acct_at_put.
    change acct_of with acct_at. rewrite !N.eqb_refl, ?Hax. cbn [bal nonce inc deleg].
    pose proof (addr_of_key_odd (tx_signer t) id) as Hsd. fold signer in Hsd.
    destruct (N.eqb_spec (delegate_addr id) signer) as [?|_]; [congruence|].
    destruct (N.eqb_spec a signer) as [Ea|Hne].
    + rewrite Ea, !N.eqb_refl.
      destruct (N.eqb_spec (delegate_addr id) signer) as [?|_]; [congruence|].
      destruct (N.eqb_spec signer (delegate_addr id)) as [?|_]; [congruence|].
      cbn [bal nonce inc deleg]. f_equal; lia.
    + destruct (N.eqb_spec signer a) as [?|_]; [congruence|].
      destruct (N.eqb_spec (delegate_addr id) a) as [Eb|Hnb].
      * rewrite <- Eb, N.eqb_refl. cbn [bal nonce inc deleg]. f_equal; lia.
      * destruct (N.eqb_spec a (delegate_addr id)) as [?|_]; [congruence|].
        destruct (acct_at l a) as [b0 n0 i0 d0]; cbn [bal nonce inc deleg]. f_equal; lia.
  - rewrite R3. reflexivity.
  - rewrite R4. reflexivity.
Qed.

(* ---------------- unstake (version 5) ---------------- *)
Lemma apply_unstake_exact l amt id signer top_h txid pu l' :
  SInv l -> amt < two64 ->
  apply_unstake l amt id signer top_h txid false pu = Ok l' ->
  exists d f, get_dlg l id = Some d /\ fund_of d signer = Some f /\
    f_unlock f <= top_h /\ amt <= f_amt f /\ amt <= staked l /\
    dlgs l' = dlgs (put_dlg l (set_fund d signer
                 (if f_amt f =? amt then None else Some (mkfund signer (f_amt f - amt) (f_unlock f))))) /\
    staked l' = staked l - amt.
Proof.
  intros HI Ha64 H. pose proof HI as (Hsort & Hkey & Hsum & Hs64). unfold apply_unstake in H.
  destruct (get_dlg l id) as [d|] eqn:Eg; cbn [of_opt bind] in H; [|discriminate H].
  destruct (find_fund (d_funds d) signer) as [f|] eqn:Ef; cbn [of_opt bind] in H; [|discriminate H].
  guard_inv H. guard_inv H. bind_inv H. injection H as <-.
  cbn [orb] in G. apply Bool.negb_true_iff in G. apply N.ltb_ge in G.
  apply Bool.negb_true_iff in G0. apply N.ltb_ge in G0.
  match type of E with stats_unstaked ?L _ = _ => set (l0 := L) in * end.
  assert (Hst0 : staked l0 = staked l) by (unfold l0; destruct (_ && _); reflexivity).
  assert (Hd0 : dlgs l0 = dlgs l) by (unfold l0; destruct (_ && _); reflexivity).
  destruct (stats_unstaked_exact l0 amt a ltac:(rewrite Hst0; exact Hs64) Ha64 E) as [Hle ->].
  destruct (SInv_fund_bound l id d signer f HI Eg Ef) as [Hfb _].
  exists d, f. split; [reflexivity|]. split; [exact Ef|]. split; [exact G|]. split; [exact G0|].
  split; [lia|]. split; [|cbn [staked put_dlg set_dlgs set_staked]; rewrite Hst0; reflexivity].
  unfold set_fund, fund_of. rewrite Ef. cbn [dlgs put_dlg set_dlgs set_staked d_id]. rewrite Hd0.
  replace (f_amt f - amt =? 0) with (f_amt f =? amt); [reflexivity|].
  destruct (N.eqb_spec (f_amt f) amt); destruct (N.eqb_spec (f_amt f - amt) 0); try reflexivity; lia.
Qed.

Theorem unstake_refines l t amt id h bh top_h l1 :
  cfg_ok_fee cfg = true ->
  tx_data t = TUnstake amt id -> tx_version t = 5 ->
  total_bal l < two64 -> wf_tx cfg t -> SInv l ->
  (forall a, inc (acct_at l a) + 1 < two64) ->
  nonce (acct_at l (sgn t)) + 1 < two64 ->
  top_h = h - 1 ->
  prevalidate_tx cfg team_key t h = Ok tt ->
  apply_tx cfg l t h bh top_h = Ok l1 ->
  let '(c, ls) := spec_tx cfg team_key l t h in
  c = 0 /\ same_accounts l1 ls /\ dlgs l1 = dlgs ls /\ staked l1 = staked ls.
Proof.
  intros Hcfg Hd Hver Hb Hwf HI Hinc Hnonce Htop Hpre Happ. subst top_h.
  destruct (prevalidate_total _ _ Hpre) as [tot Htot].
  pose proof (prevalidate_kind _ _ Hpre) as K. rewrite Hd in K.
  destruct (apply_tx_shape _ _ _ _ _ _ _ Hb Hwf Htot Happ)
    as (x & lk & stk & outs & Hx & Hn & Hkp & Hso & Hnp & Hbal & Hin64 & Hrest).
  set (signer := sgn t) in *.
  pose proof (acct_at_of_get _ _ _ Hx) as Hax. rewrite Hax in Hnonce.
  assert (Ha64 : amt < two64) by (destruct Hwf as (_ & Hwd & _); rewrite Hd in Hwd; exact Hwd).
  unfold kind_part in Hkp. rewrite Hd, Hver in Hkp. change (5 =? 5) with true in Hkp. cbv iota in Hkp.
  fold signer in Hkp.
  guard_inv Hkp. guard_inv Hkp. bind_inv Hkp. injection Hkp as <- <-. rename a into lu.
  destruct (apply_unstake_exact _ _ _ _ _ _ _ _ HI Ha64 E) as (d & f & Hget & Hf & H55 & H56 & Hles & Hdl & Hst).
  clear E.
  pose proof K as Kle. apply N.leb_le in Kle.
  unfold state_outputs in Hso. rewrite Hd in Hso.
  destruct (amt <? tx_fee t) eqn:Elt; [discriminate Hso|]. injection Hso as <-.
  rewrite wsub_small in * by lia.
  unfold state_inputs in *. rewrite Hd in *.
  cbn [sum_ins sum_souts fold_right fst snd o_amt] in Hbal, Hin64.
  assert (Hc : forall a, inc (acct_at l a) + out_cnt [mksout OUT_NORMAL (amt - tx_fee t) signer 0] a < two64).
  { intros a. cbn [out_cnt fold_right o_rcpt]. specialize (Hinc a). destruct (signer =? a); lia. }
  destruct (Hrest Hnonce Hc) as (R1 & R2 & R3 & R4 & _). clear Hrest Hc.
  pose proof (R2 (delegate_addr id)) as Hbx. cbn [in_sum fold_right fst snd] in Hbx. rewrite N.eqb_refl in Hbx.
  unfold spec_tx. fold signer.
  rewrite (pre_common_ok l t h x Hcfg Hpre Hx Hn Hnonce)
    by (unfold ver_ok; rewrite Hd, Hver; reflexivity).
  cbn [negb N.eqb]. rewrite Hd, Hget, Hf. change acct_of with acct_at. rewrite Hax.
  cbn [first_fail]. rewrite K, G, G0.
  assert (Hc55 : (f_unlock f <=? h - 1) = true) by (apply N.leb_le; exact H55).
  assert (Hc56 : (amt <=? f_amt f) = true) by (apply N.leb_le; exact H56).
  assert (Hc57 : (amt <=? bal (acct_at l (delegate_addr id))) = true) by (apply N.leb_le; lia).
  rewrite Hc55, Hc56, Hc57. cbn [negb N.eqb].
  split; [reflexivity|]. split; [|split].
  - intros a. rewrite R1. cbv zeta. cbn [in_sum out_sum out_cnt fold_right fst snd o_amt o_rcpt deleg].
    rewrite acct_at_set_staked, acct_at_put_dlg, acct_at_credit, !acct_at_debit.
    rewrite !acct_at_set_txh_gen, !acct_at_set_outtx_gen, !acct_at_put.
    change acct_of with acct_at.
    rewrite ?acct_at_set_txh_gen, ?acct_at_set_outtx_gen, ?acct_at_put.
    rewrite !N.eqb_refl, ?Hax. cbn [bal nonce inc deleg].
    pose proof (addr_of_key_odd (tx_signer t) id) as Hsd. fold signer in Hsd.
    destruct (N.eqb_spec (delegate_addr id) signer) as [?|_]; [congruence|].
    destruct (N.eqb_spec signer (delegate_addr id)) as [?|_]; [congruence|].
    destruct (N.eqb_spec a signer) as [Ea|Hne].
    + rewrite Ea, !N.eqb_refl.
      destruct (N.eqb_spec (delegate_addr id) signer) as [?|_]; [congruence|].
      cbn [bal nonce inc deleg]. f_equal; lia.
    + destruct (N.eqb_spec signer a) as [?|_]; [congruence|].
      destruct (N.eqb_spec (delegate_addr id) a) as [Eb|Hnb].
      * rewrite <- Eb, N.eqb_refl.
        destruct (acct_at l (delegate_addr id)) as [b0 n0 i0 d0]; cbn [bal nonce inc deleg]. f_equal; lia.
      * destruct (N.eqb_spec a (delegate_addr id)) as [?|_]; [congruence|].
        destruct (acct_at l a) as [b0 n0 i0 d0]; cbn [bal nonce inc deleg]. f_equal; lia.
  - rewrite R3, Hdl. reflexivity.
  - rewrite R4, Hst. reflexivity.
Qed.

(* ---------------- all five kinds ---------------- *)
(* number of incoming-transfer counters a transaction can advance on one account *)
Definition tx_ctr (t : tx) : N :=
  match tx_data t with TTransfer outs => N.of_nat (length outs) | _ => 1 end.

Definition refines_to (l1 : ledger) (r : N * ledger) : Prop :=
  fst r = 0 /\ same_accounts l1 (snd r) /\ dlgs l1 = dlgs (snd r) /\ staked l1 = staked (snd r).

Lemma refines_to_let l1 r :
  (let '(c, ls) := r in c = 0 /\ same_accounts l1 ls /\ dlgs l1 = dlgs ls /\ staked l1 = staked ls) -> refines_to l1 r.
Proof. destruct r as [c ls]. exact (fun H => H). Qed.

Theorem tx_refines l t h bh l1 :
  cfg_ok_fee cfg = true -> ver_ok t = true ->
  total_bal l < two64 -> wf_tx cfg t -> SInv l ->
  (forall a, inc (acct_at l a) + tx_ctr t < two64) ->
  nonce (acct_at l (sgn t)) + 1 < two64 ->
  h - 1 + unlock_time cfg < two64 ->
  prevalidate_tx cfg team_key t h = Ok tt ->
  apply_tx cfg l t h bh (h - 1) = Ok l1 ->
  refines_to l1 (spec_tx cfg team_key l t h).
Proof.
  intros Hcfg Hver Hb Hwf HI Hinc Hnonce Hul Hpre Happ. apply refines_to_let.
  unfold ver_ok in Hver. unfold tx_ctr in Hinc.
  destruct (tx_data t) as [os|nl name id|nw pv|sa id pu|sa id] eqn:Hd; cbn [data_version] in Hver.
  - apply (transfer_refines cfg team_key l t os h bh (h - 1) l1 Hcfg Hd); try assumption.
    apply Bool.orb_true_iff in Hver. destruct Hver as [Hv|Hv].
    + apply Bool.andb_true_iff in Hv. destruct Hv as [Hv _]. apply N.eqb_eq in Hv. left. exact Hv.
    + apply N.eqb_eq in Hv. right. exact Hv.
  - assert (Hv : tx_version t = 2).
    { apply Bool.orb_true_iff in Hver. destruct Hver as [Hv|Hv]; [|apply N.eqb_eq in Hv; exact Hv].
      apply Bool.andb_true_iff in Hv. destruct Hv as [_ Hv]. discriminate Hv. }
    apply (register_refines l t nl name id h bh (h - 1) l1 Hcfg Hd Hv); assumption.
  - assert (Hv : tx_version t = 3).
    { apply Bool.orb_true_iff in Hver. destruct Hver as [Hv|Hv]; [|apply N.eqb_eq in Hv; exact Hv].
      apply Bool.andb_true_iff in Hv. destruct Hv as [_ Hv]. discriminate Hv. }
    apply (set_delegate_refines l t nw pv h bh (h - 1) l1 Hcfg Hd Hv); assumption.
  - assert (Hv : tx_version t = 4).
    { apply Bool.orb_true_iff in Hver. destruct Hver as [Hv|Hv]; [|apply N.eqb_eq in Hv; exact Hv].
      apply Bool.andb_true_iff in Hv. destruct Hv as [_ Hv]. discriminate Hv. }
    apply (stake_refines l t sa id pu h bh (h - 1) l1 Hcfg Hd Hv); try assumption. reflexivity.
  - assert (Hv : tx_version t = 5).
    { apply Bool.orb_true_iff in Hver. destruct Hver as [Hv|Hv]; [|apply N.eqb_eq in Hv; exact Hv].
      apply Bool.andb_true_iff in Hv. destruct Hv as [_ Hv]. discriminate Hv. }
    apply (unstake_refines l t sa id h bh (h - 1) l1 Hcfg Hd Hv); try assumption. reflexivity.
Qed.

(* contrapositive: a transaction the rules refuse is refused by the code *)
Corollary refused_by_rules_refused_by_code l t h bh :
  cfg_ok_fee cfg = true -> ver_ok t = true ->
  total_bal l < two64 -> wf_tx cfg t -> SInv l ->
  (forall a, inc (acct_at l a) + tx_ctr t < two64) ->
  nonce (acct_at l (sgn t)) + 1 < two64 ->
  h - 1 + unlock_time cfg < two64 ->
  prevalidate_tx cfg team_key t h = Ok tt ->
  fst (spec_tx cfg team_key l t h) <> 0 ->
  forall l1, apply_tx cfg l t h bh (h - 1) <> Ok l1.
Proof.
  intros Hcfg Hver Hb Hwf HI Hinc Hnonce Hul Hpre Hc l1 Happ.
  destruct (tx_refines l t h bh l1 Hcfg Hver Hb Hwf HI Hinc Hnonce Hul Hpre Happ) as [Hz _]. contradiction.
Qed.

End Refine2.
