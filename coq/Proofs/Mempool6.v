(* Property C09: the ledger-side hypothesis [linv] of the simulation theorems (staked-sum invariant, no owner with two
   funds in one pool, no delegate 0) is kept by ApplyTxToState and by ApplyBlockToState (transactions that do not register
   delegate 0, staker rewards included).  The undo direction (RemoveBlockFromState) is not treated here. *)
From Virel Require Import Lib.Config Lib.U64 Lib.AMap Lib.CheckLib Model.Emission Model.Ledger Model.Node Model.Mempool
  Proofs.AMapLemmas Proofs.Emission Proofs.Conservation Proofs.Staking Proofs.StakedSum Proofs.Mempool Proofs.Mempool2 Proofs.Mempool3.
Open Scope N_scope.
Open Scope bool_scope.

Lemma ds_apply_outputs_nopos outs : forall l bh txid,
  nonpos outs -> dlgs (fst (apply_outputs l bh outs txid)) = dlgs l /\ staked (fst (apply_outputs l bh outs txid)) = staked l.
Proof.
  induction outs as [|o outs IH]; intros l bh txid Hnp; cbn [apply_outputs]; [split; reflexivity|].
  inversion Hnp as [|? ? Ho Hnp']; subst.
  destruct (safe_add _ (o_amt o)); [|split; reflexivity]. rewrite Ho.
  match goal with |- context [apply_outputs ?L bh outs txid] => destruct (IH L bh txid Hnp') as [-> ->] end.
  split; reflexivity.
Qed.

Section Keep.
Variable cfg : config.
Variable genesis_addr : N.

Lemma kind_step_linv l t st th lk st1 :
  linv l -> tx_good cfg t -> kind_step cfg l t st th = Ok (lk, st1) -> linv lk.
Proof.
  intros Hli (Hty & Hwf & _ & Hr0) H. pose proof Hli as (HI & Hnd & H0).
  unfold kind_step in H. destruct Hwf as (_ & Hwd & _).
  destruct (tx_data t) as [os|nl name id|nw pv|a id pu|a id] eqn:Ed; cbn [wf_data] in Hwd.
  - injection H as <- _. exact Hli.
  - destruct (tx_version t =? 2); [|injection H as <- _; exact Hli].
    guard_inv H. injection H as <- _. destruct (get_dlg l id) eqn:Eg; [discriminate G|].
    assert (Hid : id <> 0) by (intros ->; exact (Hr0 nl name eq_refl)).
    exact (proj2 (register_rel l [] l id (tx_signer t) name name Eg (drel_start l) Hli Hid)).
  - destruct (tx_version t =? 3); [|injection H as <- _; exact Hli].
    guard_inv H. guard_inv H. guard_inv H. injection H as <- _. exact Hli.
  - destruct (tx_version t =? 4); [|injection H as <- _; exact Hli].
    guard_inv H. guard_inv H. bind_inv H. injection H as <- _. rename a0 into lk.
    assert (Hid : id <> 0) by (intros ->; discriminate G).
    destruct (apply_stake_SInv cfg _ _ _ _ _ _ _ _ _ HI Hwd E) as [HI' _].
    unfold apply_stake in E. opt_inv E. rename x into d1. bind_inv E. rename a0 into fs1'. bind_inv E. rename a0 into ls.
    injection E as <-.
    match goal with Hx : _ = Ok fs1' |- _ => rename Hx into Efs end.
    assert (Hq : real_stake_funds (d_funds d1) (addr_of_key (tx_signer t)) a pu (wadd th (unlock_time cfg)) = Ok fs1') by exact Efs.
    match goal with Hx : stats_staked _ _ = Ok ls |- _ => destruct (stats_staked_dlgs _ _ _ Hx) as [Hdl _] end.
    match goal with Hx : get_dlg l id = Some d1 |- _ => rename Hx into Eg end.
    destruct HI as (_ & Hkey & _). pose proof (nget_keyed _ _ _ Hkey Eg) as Hdid.
    split; [exact HI'|split].
    + apply (fnodup_update l ls); [exact Hnd|exact Hdl|]. cbn [d_funds]. eapply nodup_stake; [exact (Hnd id d1 Eg)|exact Hq].
    + rewrite get_put_dlg. cbn [d_id]. rewrite Hdid. destruct (N.eqb_spec 0 id); [congruence|].
      rewrite (get_dlg_ext l ls 0 Hdl). exact H0.
  - destruct (tx_version t =? 5); [|injection H as <- _; exact Hli].
    guard_inv H. guard_inv H. bind_inv H. injection H as <- _. rename a0 into lk.
    assert (Hid : id <> 0) by (intros ->; discriminate G).
    destruct (apply_unstake_SInv _ _ _ _ _ _ _ _ _ HI Hwd E) as [HI' _].
    unfold apply_unstake in E. opt_inv E. rename x into d1. opt_inv E. rename x into f1.
    guard_inv E. guard_inv E. bind_inv E. rename a0 into ls. injection E as <-.
    match goal with Hx : stats_unstaked _ _ = Ok ls |- _ => destruct (stats_unstaked_dlgs _ _ _ Hx) as [Hdl0 _] end.
    assert (Hdl : dlgs ls = dlgs l) by (rewrite Hdl0; destruct (_ && _); reflexivity).
    match goal with Hx : get_dlg l id = Some d1 |- _ => rename Hx into Eg end.
    destruct HI as (_ & Hkey & _). pose proof (nget_keyed _ _ _ Hkey Eg) as Hdid.
    split; [exact HI'|split].
    + apply (fnodup_update l ls); [exact Hnd|exact Hdl|]. cbn [d_funds].
      apply nodup_unstake; [exact (Hnd id d1 Eg)|]. intros y Hy. destruct (f_amt f1 - a =? 0); [discriminate Hy|]. injection Hy as Hy. rewrite <- Hy. reflexivity.
    + rewrite get_put_dlg. cbn [d_id]. rewrite Hdid. destruct (N.eqb_spec 0 id); [congruence|].
      rewrite (get_dlg_ext l ls 0 Hdl). exact H0.
Qed.

Lemma apply_tx_linv l t h bh th l' : linv l -> tx_good cfg t -> apply_tx cfg l t h bh th = Ok l' -> linv l'.
Proof.
  intros Hli Hg H. rewrite apply_tx_eq in H. opt_inv H. guard_inv H. bind_inv H. destruct a as [lk st1].
  pose proof (kind_step_linv _ _ _ _ _ _ Hli Hg E0) as Hlk.
  unfold tx_tail in H. bind_inv H. bind_inv H. injection H as <-.
  destruct (ds_apply_inputs _ _ _ E1) as [D1 D2].
  match goal with Hx : state_outputs _ _ _ = Ok ?o |- _ =>
    destruct (ds_apply_outputs_nopos o a bh (tx_id t) (state_outputs_nopos cfg _ _ _ Hx)) as [B C] end.
  apply (linv_ext lk); [| |exact Hlk].
  - cbn [set_txh set_outtx dlgs]. rewrite B, D1. reflexivity.
  - cbn [set_txh set_outtx staked]. rewrite C, D2. reflexivity.
Qed.

Lemma apply_txs_linv txs : forall l h bh th fee l' fee',
  linv l -> Forall (tx_good cfg) txs -> apply_txs cfg l txs h bh th fee = Ok (l', fee') -> linv l'.
Proof.
  induction txs as [|t txs IH]; intros l h bh th fee l' fee' Hli Hall H; cbn [apply_txs] in H.
  - injection H as <- _. exact Hli.
  - inversion Hall as [|? ? Ht Hall']; subst. bind_inv H. guard_inv H.
    eapply IH; [|exact Hall'|exact H]. eapply apply_tx_linv; eassumption.
Qed.

(* staker reward *)
Lemma pos_distribute_owners fs : forall reward total added r,
  pos_distribute fs reward total added = Ok r -> owners (fst r) = owners fs.
Proof.
  intros reward total added r H. destruct (pos_distribute_spec _ _ _ _ _ H) as (-> & _).
  unfold owners. rewrite map_map. reflexivity.
Qed.

Lemma apply_pos_reward_linv l bh o l' :
  linv l -> o_amt o < two64 -> apply_pos_reward l bh o = Ok l' -> linv l'.
Proof.
  intros (HI & Hnd & H0) Ho64 H.
  destruct (apply_pos_reward_SInv l bh o l' HI Ho64 H) as [HI' _].
  unfold apply_pos_reward in H.
  guard_inv H. opt_inv H. rename x into d. guard_inv H. bind_inv H. guard_inv H. bind_inv H.
  match goal with p : (list fund * N)%type |- _ => destruct p as [funds1 added] end.
  guard_inv H. bind_inv H. rename a0 into funds2. bind_inv H. guard_inv H. bind_inv H. rename a1 into ls. injection H as <-.
  match goal with Hx : stats_staked _ _ = Ok ls |- _ => destruct (stats_staked_dlgs _ _ _ Hx) as [Hdl _] end.
  cbn [dlgs set_dhist] in Hdl.
  match goal with Hx : get_dlg l (o_extra o) = Some d |- _ => rename Hx into Eg end.
  destruct HI as (_ & Hkey & _). pose proof (nget_keyed _ _ _ Hkey Eg) as Hdid.
  match goal with Hx : pos_distribute _ _ _ _ = Ok _ |- _ => pose proof (pos_distribute_owners _ _ _ _ _ Hx) as Hown end.
  cbn [fst] in Hown.
  assert (Hn1 : NoDup (owners funds1)) by (rewrite Hown; exact (Hnd _ _ Eg)).
  assert (Hn2 : NoDup (owners funds2)).
  { match goal with Hm : match find_fund funds1 ?ow with _ => _ end = Ok funds2 |- _ =>
      destruct (find_fund funds1 ow) as [f|] eqn:Ef; [opt_inv Hm; injection Hm as <-|injection Hm as <-] end.
    - rewrite owners_upd_some by reflexivity. exact Hn1.
    - apply nodup_app_new; [exact Hn1|exact Ef]. }
  split; [exact HI'|split].
  - apply (fnodup_update l ls); [exact Hnd|exact Hdl|exact Hn2].
  - rewrite get_put_dlg. cbn [d_id]. rewrite Hdid.
    apply Bool.negb_true_iff in G. destruct (N.eqb_spec 0 (o_extra o)) as [Hz|_]; [rewrite <- Hz in G; discriminate G|].
    rewrite (get_dlg_ext l ls 0 Hdl). exact H0.
Qed.

Lemma apply_outputs_linv outs : forall l bh txid,
  linv l -> Forall (fun o => o_amt o < two64) outs -> linv (fst (apply_outputs l bh outs txid)).
Proof.
  induction outs as [|o outs IH]; intros l bh txid Hli Hb; cbn [apply_outputs]; [exact Hli|].
  inversion Hb as [|? ? Ho Hb']; subst.
  destruct (safe_add _ (o_amt o)) as [b|]; [|exact Hli].
  match goal with |- context [put_state ?L1 ?A ?S] => set (l2 := put_state L1 A S) end.
  assert (Hl2 : linv l2) by (apply (linv_ext l); [reflexivity|reflexivity|exact Hli]).
  destruct (o_type o =? OUT_COINBASE_POS); [|apply IH; assumption].
  destruct (apply_pos_reward l2 bh o) as [l3|c|c] eqn:Er; [|exact Hl2|exact Hl2].
  apply IH; [|exact Hb']. exact (apply_pos_reward_linv l2 bh o l3 Hl2 Ho Er).
Qed.

Hypothesis Hok : cfg_ok_emission cfg = true.

(* ApplyBlockToState keeps [linv] *)
Lemma apply_block_linv l b top_h l' :
  total_bal l + reward cfg (lb_height b) <= max_supply cfg ->
  Forall (tx_good cfg) (lb_txs b) -> linv l ->
  apply_block cfg genesis_addr l b top_h = Ok l' -> linv l'.
Proof.
  destruct (ok_facts cfg Hok) as ((HRI & HRI64) & H9 & Hms & Hms64 & _).
  intros Hb Htx Hli H. unfold apply_block in H.
  bind_inv H. clear E. bind_inv H. destruct a0 as [l1 fee].
  assert (Hl64 : total_bal l < two64) by lia.
  assert (Htok : Forall (tx_ok cfg) (lb_txs b)).
  { eapply Forall_impl; [|exact Htx]. intros t (_ & Hw & Ht & _). split; assumption. }
  destruct (apply_txs_total cfg (lb_txs b) l (lb_height b) (lb_hash b) top_h 0 l1 fee Hl64 two64_pos Htok E) as [Ht1 Hfee64].
  pose proof (apply_txs_linv (lb_txs b) l _ _ _ _ _ _ Hli Htx E) as Hl1.
  guard_inv H. apply Bool.negb_true_iff in G.
  pose proof (reward_le_BR cfg Hok (lb_height b)) as HrBR.
  destruct (wadd_nowrap_of_check (reward cfg (lb_height b)) fee ltac:(lia) Hfee64 G) as [Hw Hw64].
  rewrite Hw in H. bind_inv H.
  destruct (sum_souts_coinbase _ _ _ _ _ E0) as (cb & Ecb & Hsum).
  assert (Hver : lb_version b <= 1).
  { unfold coinbase in Ecb. destruct (N.eqb_spec (lb_version b) 0) as [->|?]; [lia|].
    destruct (N.eqb_spec (lb_version b) 1) as [->|?]; [lia|discriminate]. }
  destruct (coinbase_sum cfg Hok (lb_version b) (lb_signed b) (reward cfg (lb_height b) + fee) Hver ltac:(lia))
    as (cb' & Ecb' & Hs' & _).
  rewrite Ecb in Ecb'. injection Ecb' as <-.
  assert (Hob : Forall (fun o => o_amt o < two64) a0).
  { eapply Forall_impl; [|apply (souts_bounded cfg a0 (reward cfg (lb_height b) + fee)); lia]. cbn. intros; lia. }
  pose proof (apply_outputs_linv a0 l1 (lb_hash b) (lb_hash b) Hl1 Hob) as Hl2.
  destruct (apply_outputs l1 (lb_hash b) a0 (lb_hash b)) as [l2 e].
  destruct e as [[u|c|c]|]; try discriminate H. injection H as <-. exact Hl2.
Qed.

Lemma linv0 : linv ledger0.
Proof. split; [exact SInv0|]. split; [intros id d Hg; discriminate Hg|reflexivity]. Qed.

End Keep.
