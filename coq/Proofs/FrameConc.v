(* Several senders on one connection (property C14): frames written with ONE Write each are never interleaved.
   The stream on the wire is the concatenation of the Write calls in the order of a schedule (Model/Frame.v:
   run_schedule).  Part 1: whatever the schedule, the scheduled items are a merge of the senders' queues (every
   sender's items in its order, none lost, none twice).  Part 2 (bytes): with one Write per frame the receiver's framing
   cuts the stream into exactly the scheduled bodies.  Part 3 (symbolic): the receiver delivers exactly the scheduled
   packets and ends without error.  Part 4: with prefix and body in two Writes there are schedules that break both. *)
From Coq Require Import NArith List Bool Lia ZifyN ZifyBool Arith.
From Virel Require Import Lib.U64 Model.Frame Proofs.Frame.
Import ListNotations.
Open Scope N_scope.

(* ------------------------------------------------------------------ part 1: schedules are merges *)

Lemma pop_write_spec {A} (i : nat) : forall (qs qs' : list (list A)) w, pop_write i qs = Some (w, qs') ->
  nth i qs [] = w :: nth i qs' [] /\ length qs' = length qs /\ forall j, j <> i -> nth j qs' [] = nth j qs [].
Proof.
  induction i as [|i IH]; intros qs qs' w H.
  - destruct qs as [|[|x q] r]; cbn in H; try discriminate.
    injection H as <- <-. cbn. repeat split. intros [|j] Hj; [contradiction|reflexivity].
  - destruct qs as [|q r]; [discriminate|].
    assert (H' : match pop_write i r with Some (w', r') => Some (w', q :: r') | None => None end = Some (w, qs'))
      by (destruct q; exact H).
    destruct (pop_write i r) as [[w' r']|] eqn:E; [|discriminate].
    injection H' as <- <-. destruct (IH _ _ _ E) as (H1 & H2 & H3). cbn. repeat split; [exact H1 | lia |].
    intros [|j] Hj; [reflexivity|]. apply H3. lia.
Qed.

Lemma pop_write_none {A} (i : nat) : forall (qs : list (list A)), pop_write i qs = None -> nth i qs [] = [].
Proof.
  induction i as [|i IH]; intros qs H.
  - destruct qs as [|[|x q] r]; cbn in *; try reflexivity. discriminate.
  - destruct qs as [|q r]; [reflexivity|]. cbn [nth]. apply IH.
    assert (H' : match pop_write i r with Some (w', r') => Some (w', q :: r') | None => None end = None)
      by (destruct q; exact H).
    destruct (pop_write i r) as [[w' r']|]; [discriminate | reflexivity].
Qed.

(* every sender's scheduled items, followed by what it still has pending, are its queue: order kept, nothing lost,
   nothing twice; a name that is no sender contributes nothing *)
Lemma run_schedule_merge {A} (sched : list nat) : forall (qs : list (list A)) out rest,
  run_schedule sched qs = (out, rest) -> forall i, of_sender i out ++ nth i rest [] = nth i qs [].
Proof.
  induction sched as [|s r IH]; intros qs out rest H i; cbn in H.
  - injection H as <- <-. reflexivity.
  - destruct (pop_write s qs) as [[w qs']|] eqn:E.
    + destruct (run_schedule r qs') as [out' rest'] eqn:E'. injection H as <- <-.
      destruct (pop_write_spec _ _ _ _ E) as (H1 & _ & H3).
      specialize (IH _ _ _ E' i). unfold of_sender in *. cbn [filter fst].
      destruct (Nat.eqb_spec s i) as [->|Hne].
      * cbn [map snd app]. rewrite IH. symmetry. exact H1.
      * rewrite IH. apply H3. congruence.
    + eapply IH. exact H.
Qed.

Lemma run_schedule_length {A} (sched : list nat) : forall (qs : list (list A)) out rest,
  run_schedule sched qs = (out, rest) -> length rest = length qs.
Proof.
  induction sched as [|s r IH]; intros qs out rest H; cbn in H.
  - injection H as <- <-. reflexivity.
  - destruct (pop_write s qs) as [[w qs']|] eqn:E.
    + destruct (run_schedule r qs') as [out' rest'] eqn:E'. injection H as <- <-.
      destruct (pop_write_spec _ _ _ _ E) as (_ & H2 & _). rewrite (IH _ _ _ E'). exact H2.
    + eapply IH. exact H.
Qed.

Lemma run_schedule_in {A} (sched : list nat) (qs : list (list A)) out rest i w :
  run_schedule sched qs = (out, rest) -> In (i, w) out -> exists q, In q qs /\ In w q.
Proof.
  intros H Hin. pose proof (run_schedule_merge _ _ _ _ H i) as M.
  assert (Hw : In w (nth i qs [])).
  { rewrite <- M. apply in_or_app. left. unfold of_sender. apply in_map_iff. exists (i, w). split; [reflexivity|].
    apply filter_In. split; [exact Hin|]. cbn. apply Nat.eqb_refl. }
  destruct (Nat.lt_ge_cases i (length qs)) as [Hl|Hl].
  - exists (nth i qs []). split; [apply nth_In; exact Hl | exact Hw].
  - rewrite nth_overflow in Hw by exact Hl. destruct Hw.
Qed.

(* a complete schedule (nothing left pending): every sender's scheduled items are exactly its queue *)
Lemma run_schedule_complete {A} (sched : list nat) (qs : list (list A)) out rest :
  run_schedule sched qs = (out, rest) -> Forall (fun q => q = []) rest ->
  forall i, of_sender i out = nth i qs [].
Proof.
  intros H He i. rewrite <- (run_schedule_merge _ _ _ _ H i).
  assert (E : nth i rest [] = []).
  { destruct (Nat.lt_ge_cases i (length rest)) as [Hl|Hl]; [|apply nth_overflow; exact Hl].
    rewrite Forall_forall in He. apply He. apply nth_In. exact Hl. }
  rewrite E, app_nil_r. reflexivity.
Qed.

(* scheduling commutes with a per-item translation *)
Lemma pop_write_map {A B} (f : A -> B) (i : nat) : forall (qs : list (list A)),
  pop_write i (map (map f) qs) =
  match pop_write i qs with Some (w, qs') => Some (f w, map (map f) qs') | None => None end.
Proof.
  induction i as [|i IH]; intros qs.
  - destruct qs as [|[|x q] r]; reflexivity.
  - destruct qs as [|q r]; [reflexivity|].
    assert (E1 : forall (C : Type) (q0 : list C) r0, pop_write (S i) (q0 :: r0) =
              match pop_write i r0 with Some (w', r') => Some (w', q0 :: r') | None => None end)
      by (intros C q0 r0; destruct q0; reflexivity).
    cbn [map]. rewrite !E1, IH. destruct (pop_write i r) as [[w r']|]; reflexivity.
Qed.

Lemma run_schedule_map {A B} (f : A -> B) (sched : list nat) : forall (qs : list (list A)),
  run_schedule sched (map (map f) qs) =
  let '(out, rest) := run_schedule sched qs in (map (fun x => (fst x, f (snd x))) out, map (map f) rest).
Proof.
  induction sched as [|s r IH]; intros qs; cbn; [reflexivity|].
  rewrite pop_write_map. destruct (pop_write s qs) as [[w qs']|].
  - rewrite IH. destruct (run_schedule r qs'). reflexivity.
  - apply IH.
Qed.

Lemma concat_map_singleton {A B} (f : A -> B) (l : list A) : concat (map (fun x => [f x]) l) = map f l.
Proof. induction l; cbn; congruence. Qed.

Lemma scheduled_map {A B} (f : A -> B) sched (qs : list (list A)) :
  scheduled sched (map (map f) qs) = map f (scheduled sched qs).
Proof.
  unfold scheduled. rewrite run_schedule_map. destruct (run_schedule sched qs) as [out rest]. cbn [fst].
  rewrite !map_map. reflexivity.
Qed.

Lemma scheduled_in {A} sched (qs : list (list A)) w : In w (scheduled sched qs) -> exists q, In q qs /\ In w q.
Proof.
  unfold scheduled. destruct (run_schedule sched qs) as [out rest] eqn:E. cbn [fst]. intros H.
  apply in_map_iff in H. destruct H as ([i w'] & <- & Hin). eapply run_schedule_in; eassumption.
Qed.

Lemma scheduled_forall {A} (P : A -> Prop) sched (qs : list (list A)) :
  Forall (Forall P) qs -> Forall P (scheduled sched qs).
Proof.
  intros H. apply Forall_forall. intros w Hw. destruct (scheduled_in _ _ _ Hw) as (q & Hq & Hwq).
  rewrite Forall_forall in H. specialize (H _ Hq). rewrite Forall_forall in H. auto.
Qed.

(* ------------------------------------------------------------------ part 2: bytes *)

(* one Write per frame: the stream is the concatenation of whole frames, in the order of the schedule *)
Lemma wire_bytes_atomic sched (senders : list (list (list N))) :
  wire_bytes writes_atomic sched senders = concat (map bframe (scheduled sched senders)).
Proof.
  unfold wire_bytes, writes_atomic.
  rewrite (map_ext _ (map bframe)) by (intro; apply concat_map_singleton).
  fold (scheduled sched (map (map bframe) senders)). rewrite scheduled_map. reflexivity.
Qed.

(* ... and the receiver's framing cuts it into exactly the scheduled bodies, whatever the schedule *)
Lemma conc_framing sched (senders : list (list (list N))) :
  Forall (Forall (fun b => blen b <= FRAME_LIMIT)) senders ->
  forall fuel, (length (scheduled sched senders) < fuel)%nat ->
  bparse fuel (wire_bytes writes_atomic sched senders) = (scheduled sched senders, BEof).
Proof.
  intros H fuel Hf. rewrite wire_bytes_atomic. apply bparse_roundtrip; [|exact Hf].
  apply scheduled_forall. exact H.
Qed.

(* the lemma underneath, as a statement about concatenations of frames: parse (f1 ++ f2 ++ ... ) = [b1; b2; ...] *)
Lemma framing_of_concatenation bodies rest fuel : Forall (fun b => blen b <= FRAME_LIMIT) bodies ->
  bparse (length bodies + fuel) (concat (map bframe bodies) ++ rest) =
  let '(l, e) := bparse fuel rest in (bodies ++ l, e).
Proof.
  induction 1 as [|b r Hb Hr IH]; cbn [length Nat.add map concat app].
  - destruct (bparse fuel rest). reflexivity.
  - rewrite <- app_assoc, bparse_frame by exact Hb. rewrite IH. destruct (bparse fuel rest). reflexivity.
Qed.

(* ------------------------------------------------------------------ part 3: symbolic *)

Section ConcSym.
Context {key : Type}.
Variable key_eqb : key -> key -> bool.
Hypothesis key_eqb_spec : forall a b, key_eqb a b = true <-> a = b.

Lemma seal_frame_hdr (k : key) n wt d :
  seal_frame k n wt d = [Raw (hdr_encode (frame_body_len (blen d))); cipher_encrypt k n (payload_encode wt d)].
Proof. unfold seal_frame, frame_body_len. rewrite payload_length. reflexivity. Qed.

Lemma send_concat (k : key) (l : list ((N * list N) * N)) :
  send k (map fst l) (map snd l) = concat (map (sym_frame k) l).
Proof.
  unfold send. induction l as [|[[ty d] n] l IH]; [reflexivity|].
  cbn [map fst snd concat]. unfold to_wire at 1. cbn [fst snd]. rewrite send_wire_cons, IH. reflexivity.
Qed.

Lemma wire_chunks_atomic (k : key) sched (senders : list (list ((N * list N) * N))) :
  wire_chunks (sym_writes_atomic k) sched senders = concat (map (sym_frame k) (scheduled sched senders)).
Proof.
  unfold wire_chunks, sym_writes_atomic.
  rewrite (map_ext _ (map (sym_frame k))) by (intro; apply concat_map_singleton).
  fold (scheduled sched (map (map (sym_frame k)) senders)). rewrite scheduled_map. reflexivity.
Qed.

(* whatever the schedule: the receiver delivers exactly the scheduled packets, once each, and reaches the end of the
   stream without an error *)
Lemma conc_delivery (k : key) sched (senders : list (list ((N * list N) * N))) :
  Forall (Forall (fun x => pkt_ok (fst x))) senders ->
  recv key_eqb k (wire_chunks (sym_writes_atomic k) sched senders) = (map to_wire (map fst (scheduled sched senders)), REof) /\
  deliver (fst (recv key_eqb k (wire_chunks (sym_writes_atomic k) sched senders))) = map fst (scheduled sched senders).
Proof.
  intros H. rewrite wire_chunks_atomic, <- send_concat.
  apply (delivery_exact key_eqb key_eqb_spec).
  - pose proof (scheduled_forall _ sched _ H) as F. clear H. induction F; cbn; constructor; assumption.
  - rewrite !map_length. reflexivity.
Qed.

End ConcSym.

(* ------------------------------------------------------------------ part 4: two Writes per frame are not enough *)

Definition cx_b1 : list N := [1; 2; 3].
Definition cx_b2 : list N := [9; 9; 9; 9; 9].

(* sender 0 writes its prefix, sender 1 writes its prefix, then the two bodies: the receiver takes the second prefix
   for the beginning of the first body and the end of the first body for a length *)
Lemma split_writes_refuted_bytes :
  wire_bytes writes_split [0; 1; 0; 1]%nat [[cx_b1]; [cx_b2]] = [3; 0; 0; 0; 5; 0; 0; 0; 1; 2; 3; 9; 9; 9; 9; 9] /\
  bparse 10 (wire_bytes writes_split [0; 1; 0; 1]%nat [[cx_b1]; [cx_b2]]) = ([[5; 0; 0]], BTooBig 50462976) /\
  bparse 10 (wire_bytes writes_atomic [0; 1; 0; 1]%nat [[cx_b1]; [cx_b2]]) = ([cx_b1; cx_b2], BEof) /\
  bparse 10 (wire_bytes writes_split [0; 0; 1; 1]%nat [[cx_b1]; [cx_b2]]) = ([cx_b1; cx_b2], BEof).
Proof. vm_compute. repeat split; reflexivity. Qed.

Definition cx_k : free_key := free_kdf 1 (free_dh 1 2).
Definition cx_senders : list (list ((N * list N) * N)) := [[((2, [7; 7; 7]), 100)]; [((3, [8]), 101)]].

(* the same schedule on the symbolic level: nothing is delivered and the connection ends with an error, although
   both frames are genuine; with one Write per frame both packets are delivered under every order *)
Lemma split_writes_refuted_sym :
  recv free_key_eqb cx_k (wire_chunks (sym_writes_split cx_k) [0; 1; 0; 1]%nat cx_senders) = ([], RErr E_OPEN) /\
  recv free_key_eqb cx_k (wire_chunks (sym_writes_atomic cx_k) [0; 1; 0; 1]%nat cx_senders) = ([(4, [7; 7; 7]); (5, [8])], REof) /\
  recv free_key_eqb cx_k (wire_chunks (sym_writes_atomic cx_k) [1; 0]%nat cx_senders) = ([(5, [8]); (4, [7; 7; 7])], REof).
Proof. vm_compute. repeat split; reflexivity. Qed.
