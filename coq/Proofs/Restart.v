(* Property C10 (model part): on every reachable node state the start-up reorganisation check is a no-op, and offering a
   block again that the node already stores changes nothing (so lost deliveries can be replayed with overlap). *)
From Virel Require Import Lib.Config Lib.U64 Lib.AMap Model.Ledger Model.Node Proofs.AMapLemmas Proofs.Conservation
  Proofs.ForkChoice.
Open Scope N_scope.

Section Restart.
Variable cfg : config.
Variable genesis_addr team_key : N.

(* under the fork-choice invariant no alternative tip is heavier than the main tip: CheckReorgs does nothing *)
Lemma bt_fold_stable topn l : forall best amb,
  (forall kv, In kv l -> t_cd (snd kv) <= t_cd best) ->
  fst (fold_left (bt_step topn) l (best, amb)) = best.
Proof.
  induction l as [|kv l IH]; intros best amb H; cbn [fold_left]; [reflexivity|].
  assert (Hk : t_cd (snd kv) <= t_cd best) by (apply H; left; reflexivity).
  unfold bt_step at 2. destruct (N.ltb_spec (t_cd best) (t_cd (snd kv))); [lia|].
  destruct (_ && _ && _); apply IH; intros kv' Hin; apply H; right; exact Hin.
Qed.

Theorem startup_check_noop n :
  FInv n -> exists amb, check_reorgs cfg genesis_addr n = Ok (n, amb).
Proof.
  intros (Hts & Htips & Hmax). unfold check_reorgs.
  assert (Hbest : fst (best_tip n) = mktip (top n) (top_h n) (top_cd n)).
  { rewrite best_tip_unfold. apply bt_fold_stable. intros [k tp] Hin. cbn [snd t_cd].
    destruct (Htips k tp Hin) as (tb & Htb & Hcd). rewrite <- Hcd. apply (Hmax _ _ Htb). }
  destruct (best_tip n) as [alt amb]. cbn [fst] in Hbest. subst alt. cbn [t_hash].
  rewrite N.eqb_refl. exists amb. reflexivity.
Qed.

(* a block that is already stored is refused without any change, whatever else is true of it *)
Theorem redelivery_changes_nothing n b now :
  get_block n (b_hash b) <> None -> fst (fst (deliver cfg genesis_addr team_key n b now)) = n.
Proof.
  intros Hst. unfold deliver.
  destruct (prevalidate_block cfg team_key b now); try reflexivity.
  unfold add_block. destruct (get_block n (b_hash b)); [|contradiction]. reflexivity.
Qed.

(* an accepted block is stored afterwards ... *)
Lemma check_reorgs_blocks n n' amb : check_reorgs cfg genesis_addr n = Ok (n', amb) -> blocks n' = blocks n.
Proof.
  unfold check_reorgs. intros H. destruct (best_tip n) as [alt amb0].
  destruct (t_hash alt =? top n); [injection H as <- _; reflexivity|].
  opt_inv H. bind_inv H. destruct a as [common hashes]. bind_inv H. rename a into na. bind_inv H. rename a into nb.
  injection H as <- _.
  cbn [set_top set_tips blocks].
  assert (F1 : same_frame n na).
  { destruct (top n =? common); [injection E1 as <-; apply same_frame_refl|].
    opt_inv E1. eapply reorg_disconnect_frame; eassumption. }
  apply reorg_connect_frame in E2. destruct F1 as (A & _). destruct E2 as (B & _). congruence.
Qed.

Theorem accepted_is_stored n b now n' amb :
  deliver cfg genesis_addr team_key n b now = (n', Accepted, amb) -> get_block n' (b_hash b) = Some b.
Proof.
  unfold deliver. intros H.
  destruct (prevalidate_block cfg team_key b now); try discriminate.
  destruct (add_block cfg genesis_addr n b) as [[n1 amb1]|c|c] eqn:E; try discriminate.
  injection H as <- _. unfold add_block in E.
  guard_inv E. opt_inv E. bind_inv E.
  destruct (prev_hash b =? top n).
  - bind_inv E. injection E as <- _. unfold add_mainchain_block in E2. bind_inv E2. injection E2 as <-.
    apply apply_block_node_frame in E. destruct E as (Fb & _).
    unfold get_block. cbn [set_topo set_blocks set_top blocks]. rewrite Fb. apply nget_nset_same.
  - unfold add_altchain_block in E. apply check_reorgs_blocks in E.
    unfold get_block. rewrite E. cbn [set_blocks blocks]. apply nget_nset_same.
Qed.

(* ... so delivering it again (after a crash, with overlap) is harmless: deliveries are idempotent *)
Theorem delivery_idempotent n b now now' n' amb :
  deliver cfg genesis_addr team_key n b now = (n', Accepted, amb) ->
  fst (fst (deliver cfg genesis_addr team_key n' b now')) = n'.
Proof.
  intros H. apply redelivery_changes_nothing. rewrite (accepted_is_stored _ _ _ _ _ H). discriminate.
Qed.

(* every state reachable from genesis by any deliveries passes the start-up check unchanged *)
Theorem reachable_startup_noop g n0 ops :
  node0 cfg genesis_addr g = Ok n0 -> b_cd g = b_diff g ->
  exists amb, check_reorgs cfg genesis_addr (run cfg genesis_addr team_key n0 ops) = Ok (run cfg genesis_addr team_key n0 ops, amb).
Proof.
  intros H0 Hg. apply startup_check_noop. apply run_inv. eapply node0_inv; eassumption.
Qed.

End Restart.
