(* Model of util/uint128 (the operations the difficulty / proof-of-work code uses) over N.
   A Uint128{Lo, Hi} is represented by its value Lo + 2^64*Hi; [lo]/[hi] recover the two words.
   Every operation is transcribed word by word from uint128.go with math/bits primitives, and returns an
   explicit outcome: [Ok v] or [Panic] exactly where the Go code panics ("overflow", "underflow",
   bits.Div64's divide error / overflow error).  Executable definitions only; lemmas in Proofs/U128.v. *)
From Coq Require Export Bool.
From Virel Require Export Lib.U64.
Open Scope bool_scope.
Open Scope N_scope.

Definition two63 : N := 9223372036854775808.

Inductive outcome (A : Type) : Type := Ok (v : A) | Panic.
Arguments Ok {A} v.
Arguments Panic {A}.

Definition bind {A B} (x : outcome A) (f : A -> outcome B) : outcome B :=
  match x with Ok v => f v | Panic => Panic end.

Definition hi (u : N) : N := u / two64.
Definition lo (u : N) : N := u mod two64.
Definition mk (h l : N) : N := h * two64 + l.        (* Uint128{Lo: l, Hi: h} *)
Definition from64 (v : N) : N := mk 0 v.
Definition max128 : N := mk max_u64 max_u64.          (* uint128.Max *)
Definition u128 (x : N) : Prop := x < two128.

(* ---- math/bits (documented semantics) ---- *)
Definition bits_mul64 (x y : N) : N * N := ((x * y) / two64, (x * y) mod two64).          (* (hi, lo) *)
Definition bits_add64 (x y c : N) : N * N := ((x + y + c) mod two64, (x + y + c) / two64). (* (sum, carryOut) *)
Definition bits_sub64 (x y b : N) : N * N :=                                                (* (diff, borrowOut) *)
  ((x + two64 + two64 - y - b) mod two64, if x <? y + b then 1 else 0).
(* bits.Div64(hi, lo, y): panics for y == 0 (division by zero) and for y <= hi (quotient overflow) *)
Definition bits_div64 (h l y : N) : outcome (N * N) :=
  if y =? 0 then Panic else if y <=? h then Panic
  else Ok ((h * two64 + l) / y, (h * two64 + l) mod y).
Definition leading_zeros64 (x : N) : N := 64 - N.size x.
(* uint64 shifts; Go gives 0 for counts >= 64 *)
Definition shl64 (x n : N) : N := wrap (N.shiftl x n).
Definition shr64 (x n : N) : N := N.shiftr x n.

(* ---- uint128 ---- *)
Inductive cmp_result := CLt | CEq | CGt.     (* -1, 0, +1 *)

Definition cmp (u v : N) : cmp_result :=
  if (hi u =? hi v) && (lo u =? lo v) then CEq
  else if (hi u <? hi v) || ((hi u =? hi v) && (lo u <? lo v)) then CLt
  else CGt.

Definition cmp64 (u v : N) : cmp_result :=
  if (hi u =? 0) && (lo u =? v) then CEq
  else if (hi u =? 0) && (lo u <? v) then CLt
  else CGt.

Definition add (u v : N) : outcome N :=
  let '(l, carry) := bits_add64 (lo u) (lo v) 0 in
  let '(h, carry) := bits_add64 (hi u) (hi v) carry in
  if negb (carry =? 0) then Panic else Ok (mk h l).

Definition add64 (u v : N) : outcome N :=
  let '(l, carry) := bits_add64 (lo u) v 0 in
  let '(h, carry) := bits_add64 (hi u) 0 carry in
  if negb (carry =? 0) then Panic else Ok (mk h l).

Definition sub (u v : N) : outcome N :=
  let '(l, borrow) := bits_sub64 (lo u) (lo v) 0 in
  let '(h, borrow) := bits_sub64 (hi u) (hi v) borrow in
  if negb (borrow =? 0) then Panic else Ok (mk h l).

Definition mul64 (u v : N) : outcome N :=
  let '(h, l) := bits_mul64 (lo u) v in
  let '(p0, p1) := bits_mul64 (hi u) v in
  let '(h, c0) := bits_add64 h p1 0 in
  if negb (p0 =? 0) || negb (c0 =? 0) then Panic else Ok (mk h l).

(* QuoRem64: (q, r) *)
Definition quorem64 (u v : N) : outcome (N * N) :=
  if hi u <? v then
    bind (bits_div64 (hi u) (lo u) v) (fun qr => Ok (mk 0 (fst qr), snd qr))
  else
    bind (bits_div64 0 (hi u) v) (fun qr1 =>
    bind (bits_div64 (snd qr1) (lo u) v) (fun qr2 => Ok (mk (fst qr1) (fst qr2), snd qr2))).

Definition div64 (u v : N) : outcome N := bind (quorem64 u v) (fun qr => Ok (fst qr)).
Definition mod64 (u v : N) : outcome N := bind (quorem64 u v) (fun qr => Ok (snd qr)).

(* Lsh / Rsh for shift counts n <= 64 (the only ones QuoRem uses; the n > 64 branch is transcribed too) *)
Definition lsh (u n : N) : N :=
  if 64 <? n then mk (shl64 (lo u) (n - 64)) 0
  else mk (N.lor (shl64 (hi u) n) (shr64 (lo u) (64 - n))) (shl64 (lo u) n).
Definition rsh (u n : N) : N :=
  if 64 <? n then mk 0 (shr64 (hi u) (n - 64))
  else mk (shr64 (hi u) n) (N.lor (shr64 (lo u) n) (shl64 (hi u) (64 - n))).

(* QuoRem: (q, r) *)
Definition quorem (u v : N) : outcome (N * N) :=
  if hi v =? 0 then
    bind (quorem64 u (lo v)) (fun qr => Ok (fst qr, from64 (snd qr)))
  else
    let n := leading_zeros64 (hi v) in
    let v1 := lsh v n in
    let u1 := rsh u 1 in
    bind (bits_div64 (hi u1) (lo u1) (hi v1)) (fun tqr =>
    let tq := shr64 (fst tqr) (63 - n) in          (* n <= 63 because v.Hi != 0 *)
    let tq := if negb (tq =? 0) then tq - 1 else tq in
    let q := from64 tq in
    bind (mul64 v tq) (fun p =>
    bind (sub u p) (fun r =>
    match cmp r v with
    | CLt => Ok (q, r)
    | _ => bind (add64 q 1) (fun q' => bind (sub r v) (fun r' => Ok (q', r')))
    end))).

Definition div (u v : N) : outcome N := bind (quorem u v) (fun qr => Ok (fst qr)).
Definition mod_ (u v : N) : outcome N := bind (quorem u v) (fun qr => Ok (snd qr)).

Definition outcome_eqb (a : outcome N) (b : option N) : bool :=
  match a, b with
  | Ok x, Some y => x =? y
  | Panic, None => true
  | _, _ => false
  end.
