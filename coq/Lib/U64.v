(* Machine arithmetic of Go's uint64 over N: wrap-around is explicit. *)
From Coq Require Export NArith ZArith Lia ZifyN ZifyBool List.
Export ListNotations.
Open Scope N_scope.
Ltac Zify.zify_post_hook ::= Z.div_mod_to_equations.

Definition two64 : N := 18446744073709551616.
Definition max_u64 : N := 18446744073709551615.
Definition two128 : N := 340282366920938463463374607431768211456.

Definition wrap (x : N) : N := x mod two64.
Definition wadd (a b : N) : N := wrap (a + b).
Definition wmul (a b : N) : N := wrap (a * b).
(* a - b in uint64: wraps when b > a *)
Definition wsub (a b : N) : N := wrap (a + two64 - (b mod two64)).

Definition u64 (x : N) : Prop := x < two64.

Lemma two64_pos : 0 < two64. Proof. reflexivity. Qed.

Lemma wrap_small x : x < two64 -> wrap x = x.
Proof. intros H. unfold wrap. apply N.mod_small. exact H. Qed.

Lemma wrap_lt x : wrap x < two64.
Proof. unfold wrap. apply N.mod_lt. discriminate. Qed.

Lemma wadd_small a b : a + b < two64 -> wadd a b = a + b.
Proof. intros H. unfold wadd. apply wrap_small. exact H. Qed.

Lemma wmul_small a b : a * b < two64 -> wmul a b = a * b.
Proof. intros H. unfold wmul. apply wrap_small. exact H. Qed.

Lemma wsub_small a b : b <= a -> a < two64 -> wsub a b = a - b.
Proof.
  intros Hb Ha. unfold wsub, wrap.
  assert (Hb' : b mod two64 = b) by (apply N.mod_small; lia).
  rewrite Hb'.
  replace (a + two64 - b) with ((a - b) + 1 * two64) by lia.
  rewrite N.mod_add by discriminate. apply N.mod_small. lia.
Qed.

(* util.SafeAdd *)
Definition safe_add (a b : N) : option N :=
  if (wadd a b) <? a then None else Some (wadd a b).

Lemma safe_add_some a b r : a < two64 -> b < two64 -> safe_add a b = Some r -> r = a + b /\ a + b < two64.
Proof.
  unfold safe_add, wadd, wrap. intros Ha Hb.
  destruct (N.ltb_spec ((a + b) mod two64) a) as [H|H]; [discriminate|].
  intros [= <-].
  assert (Hc : a + b < two64 \/ two64 <= a + b) by lia.
  destruct Hc as [Hc|Hc].
  - rewrite N.mod_small by exact Hc. split; [reflexivity|exact Hc].
  - exfalso.
    assert (E : (a + b) mod two64 = a + b - two64).
    { replace (a + b) with ((a + b - two64) + 1 * two64) at 1 by lia.
      rewrite N.mod_add by discriminate. apply N.mod_small. lia. }
    rewrite E in H. lia.
Qed.

Lemma safe_add_none a b : a < two64 -> b < two64 -> safe_add a b = None -> two64 <= a + b.
Proof.
  unfold safe_add, wadd, wrap. intros Ha Hb.
  destruct (N.ltb_spec ((a + b) mod two64) a) as [H|H]; [|discriminate].
  intros _.
  destruct (N.lt_ge_cases (a + b) two64) as [Hc|Hc]; [|exact Hc].
  rewrite N.mod_small in H by exact Hc. lia.
Qed.
