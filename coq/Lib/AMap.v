(* Association lists used as finite maps in the models (database indexes).
   get = first match; set = replace in place when present, else append. Executable definitions only. *)
From Coq Require Export NArith List Bool.
Export ListNotations.
Open Scope N_scope.

Section AMap.
Context {K V : Type}.
Variable keqb : K -> K -> bool.

Fixpoint aget (m : list (K * V)) (k : K) : option V :=
  match m with
  | [] => None
  | (k', v) :: r => if keqb k k' then Some v else aget r k
  end.

Fixpoint aset (m : list (K * V)) (k : K) (v : V) : list (K * V) :=
  match m with
  | [] => [(k, v)]
  | (k', v') :: r => if keqb k k' then (k, v) :: r else (k', v') :: aset r k v
  end.

Fixpoint adel (m : list (K * V)) (k : K) : list (K * V) :=
  match m with
  | [] => []
  | (k', v') :: r => if keqb k k' then r else (k', v') :: adel r k
  end.
End AMap.

Definition nget {V} := @aget N V N.eqb.
Definition nset {V} := @aset N V N.eqb.
Definition ndel {V} := @adel N V N.eqb.

Definition pair_keqb (a b : N * N) : bool := (fst a =? fst b) && (snd a =? snd b).
Definition pget {V} := @aget (N * N) V pair_keqb.
Definition pset {V} := @aset (N * N) V pair_keqb.
