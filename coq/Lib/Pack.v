(* Byte strings in cases files are packed seven bytes per primitive Uint63 literal (cheap to elaborate).
   Used by the correspondence evaluation only; no theorem mentions these definitions. *)
From Coq Require Import NArith ZArith List Uint63.
Import ListNotations.
Open Scope N_scope.

Record packed := mkpacked { p_len : N; p_words : list int }.

Definition word_bytes (w : int) (n : nat) : list N :=
  (fix go (w : int) (n : nat) : list N :=
     match n with
     | O => []
     | S k => Z.to_N (Uint63.to_Z (Uint63.land w 255%uint63)) :: go (Uint63.lsr w 8%uint63) k
     end) w n.

Fixpoint unpack_words (ws : list int) (len : nat) : list N :=
  match ws with
  | [] => []
  | w :: r => if Nat.leb len 7 then word_bytes w len else word_bytes w 7 ++ unpack_words r (len - 7)
  end.

Definition unpack (p : packed) : list N := unpack_words (p_words p) (N.to_nat (p_len p)).
