(* Positional numerals: big numbers <-> digit strings in an arbitrary base (used with base 36, 10 and 256).
   [of_digits] is Horner evaluation, most significant digit first (math/big nat.scan, SetBytes);
   [to_digits] is the representation without leading zeros, [] for 0 (math/big Bytes, the digits of Text / FormatUint).
   The lemmas are about positional numerals in general: evaluation of a concatenation, bounds,
   of_digits (to_digits n) = n, and uniqueness of the representation without leading zeros. *)
From Virel Require Export Lib.U64.
Open Scope N_scope.

(* number of leading occurrences of x (leading zero digits, leading '0' characters) *)
Fixpoint lead_count (x : N) (l : list N) : nat :=
  match l with
  | d :: r => if d =? x then S (lead_count x r) else O
  | [] => O
  end.
Notation lead_zeros := (lead_count 0).

Lemma lead_count_repeat x k l : lead_count x (repeat x k ++ l) = (k + lead_count x l)%nat.
Proof. induction k as [|k IH]; [reflexivity|]. cbn [repeat app lead_count]. rewrite N.eqb_refl, IH. reflexivity. Qed.

Lemma lead_count_hd x l : hd (x + 1) l <> x -> lead_count x l = O.
Proof. destruct l as [|d r]; [reflexivity|]. cbn [hd lead_count]. intros H. destruct (N.eqb_spec d x); [contradiction|reflexivity]. Qed.

Section Digits.
Variable b : N.

(* most significant digit first *)
Definition of_digits (ds : list N) : N := fold_left (fun acc d => acc * b + d) ds 0.

(* least significant digit first (proof device and little-endian byte strings) *)
Fixpoint of_le (ds : list N) : N :=
  match ds with [] => 0 | d :: r => d + b * of_le r end.

Fixpoint to_le_fuel (fuel : nat) (n : N) : list N :=
  match fuel with
  | O => []
  | S f => if n =? 0 then [] else let '(q, r) := N.div_eucl n b in r :: to_le_fuel f q
  end.

Fixpoint to_digits_aux (fuel : nat) (n : N) (acc : list N) : list N :=
  match fuel with
  | O => acc
  | S f => if n =? 0 then acc else let '(q, r) := N.div_eucl n b in to_digits_aux f q (r :: acc)
  end.

(* fuel: the number of bits of n; enough for every base >= 2 *)
Definition fuel_of (n : N) : nat := N.to_nat (N.size n).
Definition to_digits (n : N) : list N := to_digits_aux (fuel_of n) n [].
Definition to_le (n : N) : list N := to_le_fuel (fuel_of n) n.


Definition digits_lt (ds : list N) : Prop := Forall (fun d => d < b) ds.
(* no leading zero: the empty string (zero) or a first digit different from 0 *)
Definition canonical (ds : list N) : Prop := digits_lt ds /\ hd 1 ds <> 0.
Definition canonical_le (ds : list N) : Prop := digits_lt ds /\ last ds 1 <> 0.

(* one quotient/remainder computation per digit; the lemmas see it as n / b and n mod b *)
Lemma to_le_fuel_S f n :
  to_le_fuel (S f) n = if n =? 0 then [] else n mod b :: to_le_fuel f (n / b).
Proof. cbn [to_le_fuel]. unfold N.div, N.modulo. destruct (N.div_eucl n b). reflexivity. Qed.

Lemma to_digits_aux_S f n acc :
  to_digits_aux (S f) n acc = if n =? 0 then acc else to_digits_aux f (n / b) (n mod b :: acc).
Proof. cbn [to_digits_aux]. unfold N.div, N.modulo. destruct (N.div_eucl n b). reflexivity. Qed.

(* ---------------- Horner evaluation ---------------- *)

Lemma fold_horner ds : forall acc,
  fold_left (fun acc d => acc * b + d) ds acc = acc * b ^ N.of_nat (length ds) + of_digits ds.
Proof.
  unfold of_digits. induction ds as [|d r IH]; intros acc.
  - cbn. lia.
  - cbn [fold_left length]. rewrite IH. rewrite (IH (0 * b + d)).
    rewrite Nat2N.inj_succ, N.pow_succ_r'. lia.
Qed.

Lemma of_digits_nil : of_digits [] = 0.
Proof. reflexivity. Qed.

Lemma of_digits_app l1 l2 :
  of_digits (l1 ++ l2) = of_digits l1 * b ^ N.of_nat (length l2) + of_digits l2.
Proof. unfold of_digits at 1. rewrite fold_left_app. fold (of_digits l1). apply fold_horner. Qed.

Lemma of_digits_cons d r : of_digits (d :: r) = d * b ^ N.of_nat (length r) + of_digits r.
Proof. change (d :: r) with ([d] ++ r). rewrite of_digits_app. unfold of_digits at 1. cbn. lia. Qed.

Lemma of_digits_snoc l d : of_digits (l ++ [d]) = of_digits l * b + d.
Proof. rewrite of_digits_app. unfold of_digits at 2. cbn [length fold_left]. change (N.of_nat 1) with 1. rewrite N.pow_1_r. lia. Qed.

Lemma of_digits_rev ds : of_digits ds = of_le (rev ds).
Proof.
  induction ds as [|d l IH] using rev_ind.
  - reflexivity.
  - rewrite of_digits_snoc, rev_unit. cbn [of_le]. rewrite <- IH. lia.
Qed.

Lemma of_le_rev ds : of_le ds = of_digits (rev ds).
Proof. rewrite of_digits_rev, rev_involutive. reflexivity. Qed.

Lemma of_digits_zeros k ds : of_digits (repeat 0 k ++ ds) = of_digits ds.
Proof.
  induction k as [|k IH]; [reflexivity|].
  cbn [repeat app]. rewrite of_digits_cons, IH. lia.
Qed.

Lemma of_digits_all_zeros k : of_digits (repeat 0 k) = 0.
Proof. rewrite <- (app_nil_r (repeat 0 k)), of_digits_zeros. reflexivity. Qed.

(* ---------------- bounds ---------------- *)

Lemma of_digits_lt ds : digits_lt ds -> of_digits ds < b ^ N.of_nat (length ds).
Proof.
  intros H. induction ds as [|d l IH] using rev_ind.
  - cbn. lia.
  - apply Forall_app in H. destruct H as [Hl Hd]. inversion Hd as [|? ? Hdb _]; subst.
    rewrite of_digits_snoc, app_length. cbn [length]. rewrite Nat.add_1_r, Nat2N.inj_succ, N.pow_succ_r'.
    specialize (IH Hl). nia.
Qed.

Lemma of_digits_ge d r : d <> 0 -> b ^ N.of_nat (length r) <= of_digits (d :: r).
Proof. intros Hd. rewrite of_digits_cons. nia. Qed.

(* ---------------- to_digits through the little-endian form ---------------- *)

Lemma to_digits_aux_spec fuel : forall n acc, to_digits_aux fuel n acc = rev (to_le_fuel fuel n) ++ acc.
Proof.
  induction fuel as [|f IH]; intros n acc; [reflexivity|].
  rewrite to_digits_aux_S, to_le_fuel_S.
  destruct (n =? 0); [reflexivity|].
  rewrite IH. cbn [rev]. rewrite <- app_assoc. reflexivity.
Qed.

Lemma to_digits_rev n : to_digits n = rev (to_le n).
Proof. unfold to_digits, to_le. rewrite to_digits_aux_spec, app_nil_r. reflexivity. Qed.

Lemma fuel_of_ok n : n < 2 ^ N.of_nat (fuel_of n).
Proof. unfold fuel_of. rewrite N2Nat.id. apply N.size_gt. Qed.

Hypothesis Hb : 2 <= b.

Lemma div_fuel n f : n < 2 ^ N.of_nat (S f) -> n / b < 2 ^ N.of_nat f.
Proof.
  intros H. rewrite Nat2N.inj_succ, N.pow_succ_r' in H.
  apply N.div_lt_upper_bound; [lia|]. nia.
Qed.

Lemma to_le_fuel_lt fuel : forall n, digits_lt (to_le_fuel fuel n).
Proof.
  induction fuel as [|f IH]; intros n; [constructor|].
  rewrite to_le_fuel_S.
  destruct (n =? 0); constructor; [apply N.mod_lt; lia|apply IH].
Qed.

Lemma of_le_to_le_fuel fuel : forall n, n < 2 ^ N.of_nat fuel -> of_le (to_le_fuel fuel n) = n.
Proof.
  induction fuel as [|f IH]; intros n Hn.
  - cbn in *. lia.
  - rewrite to_le_fuel_S. destruct (N.eqb_spec n 0) as [->|Hz]; [reflexivity|].
    cbn [of_le]. rewrite IH by (apply div_fuel; exact Hn).
    pose proof (N.div_mod n b ltac:(lia)). lia.
Qed.

Lemma to_le_fuel_last fuel : forall n, n < 2 ^ N.of_nat fuel -> last (to_le_fuel fuel n) 1 <> 0.
Proof.
  induction fuel as [|f IH]; intros n Hn.
  - cbn. lia.
  - rewrite to_le_fuel_S. destruct (N.eqb_spec n 0) as [->|Hz]; [cbn; lia|].
    specialize (IH (n / b) (div_fuel n f Hn)).
    destruct (N.eqb_spec (n / b) 0) as [Hq|Hq].
    + assert (Hnb : n < b) by (apply N.div_small_iff; [lia|exact Hq]).
      assert (Hm : n mod b = n) by (apply N.mod_small; exact Hnb).
      rewrite Hq, Hm. destruct f; cbn [to_le_fuel last N.eqb]; exact Hz.
    + destruct f as [|f'].
      * pose proof (div_fuel n 0 Hn) as H0. change (2 ^ N.of_nat 0) with 1 in H0.
        revert H0 Hq. generalize (n / b). intros q H0 Hq. lia.
      * remember (to_le_fuel (S f') (n / b)) as l eqn:El.
        destruct l as [|x l'].
        { rewrite to_le_fuel_S in El. destruct (N.eqb_spec (n / b) 0); [lia|discriminate]. }
        exact IH.
Qed.

Lemma of_le_zero ds : canonical_le ds -> of_le ds = 0 -> ds = [].
Proof.
  intros [Hlt Hlast]. induction ds as [|d r IH]; [reflexivity|].
  intros H. cbn [of_le] in H. exfalso.
  inversion Hlt as [|? ? Hd Hr]; subst.
  destruct r as [|e r'].
  - cbn in Hlast, H. lia.
  - assert (He : of_le (e :: r') = 0) by nia.
    specialize (IH Hr Hlast He). discriminate.
Qed.

(* uniqueness of the representation without leading zeros *)
Lemma to_le_fuel_of_le ds : canonical_le ds ->
  forall fuel, of_le ds < 2 ^ N.of_nat fuel -> to_le_fuel fuel (of_le ds) = ds.
Proof.
  induction ds as [|d r IH]; intros Hc fuel Hf.
  - destruct fuel; reflexivity.
  - destruct Hc as [Hlt Hlast]. inversion Hlt as [|? ? Hd Hr]; subst.
    assert (Hcr : canonical_le r).
    { split; [exact Hr|]. destruct r; [cbn; lia|exact Hlast]. }
    assert (Hnz : of_le (d :: r) <> 0).
    { intros E. pose proof (of_le_zero (d :: r) (conj Hlt Hlast) E). discriminate. }
    destruct fuel as [|f]; [change (2 ^ N.of_nat 0) with 1 in Hf; lia|].
    rewrite to_le_fuel_S. destruct (N.eqb_spec (of_le (d :: r)) 0) as [E|_]; [contradiction|].
    assert (Hm : of_le (d :: r) mod b = d).
    { cbn [of_le]. rewrite N.mul_comm, N.mod_add by lia. apply N.mod_small. exact Hd. }
    assert (Hq : of_le (d :: r) / b = of_le r).
    { cbn [of_le]. rewrite N.mul_comm, N.div_add by lia. rewrite N.div_small by exact Hd. lia. }
    rewrite Hm, Hq. f_equal. apply IH; [exact Hcr|].
    rewrite <- Hq. apply div_fuel. exact Hf.
Qed.

Lemma canonical_rev ds : canonical ds <-> canonical_le (rev ds).
Proof.
  unfold canonical, canonical_le, digits_lt.
  assert (E : hd 1 ds = last (rev ds) 1).
  { destruct ds as [|d r]; [reflexivity|]. cbn [rev hd]. rewrite last_last. reflexivity. }
  rewrite E. split; intros [H1 H2]; (split; [|exact H2]).
  - apply Forall_rev. exact H1.
  - rewrite <- (rev_involutive ds). apply Forall_rev. exact H1.
Qed.

(* ---------------- the four facts used by the address proofs ---------------- *)

Lemma to_digits_lt n : digits_lt (to_digits n).
Proof. rewrite to_digits_rev. apply Forall_rev. apply to_le_fuel_lt. Qed.

Lemma of_to_digits n : of_digits (to_digits n) = n.
Proof.
  rewrite of_digits_rev, to_digits_rev, rev_involutive.
  apply of_le_to_le_fuel. apply fuel_of_ok.
Qed.

Lemma to_digits_canonical n : canonical (to_digits n).
Proof.
  apply canonical_rev. rewrite to_digits_rev, rev_involutive.
  split; [apply to_le_fuel_lt|]. apply to_le_fuel_last. apply fuel_of_ok.
Qed.

Lemma to_of_digits ds : canonical ds -> to_digits (of_digits ds) = ds.
Proof.
  intros Hc. rewrite to_digits_rev. unfold to_le.
  rewrite of_digits_rev. rewrite to_le_fuel_of_le.
  - apply rev_involutive.
  - apply canonical_rev. exact Hc.
  - apply fuel_of_ok.
Qed.

Lemma to_digits_0 : to_digits 0 = [].
Proof. reflexivity. Qed.

Lemma to_digits_nil_iff n : to_digits n = [] <-> n = 0.
Proof.
  split; intros H.
  - rewrite <- (of_to_digits n), H. reflexivity.
  - subst. reflexivity.
Qed.

(* the number of digits: n < b^k  <->  at most k digits *)
Lemma to_digits_length_le n k : n < b ^ N.of_nat k -> (length (to_digits n) <= k)%nat.
Proof.
  intros Hn. destruct (to_digits_canonical n) as [Hlt Hhd].
  pose proof (of_to_digits n) as E.
  destruct (to_digits n) as [|d r] eqn:Ed; [cbn; lia|].
  cbn [hd] in Hhd. pose proof (of_digits_ge d r Hhd) as Hge. rewrite E in Hge.
  cbn [length].
  destruct (Nat.le_gt_cases (S (length r)) k) as [Hle|Hgt]; [exact Hle|exfalso].
  assert (Hpow : b ^ N.of_nat k <= b ^ N.of_nat (length r)) by (apply N.pow_le_mono_r; lia).
  lia.
Qed.

Lemma to_digits_length_ge n k : b ^ N.of_nat k <= n -> (k < length (to_digits n))%nat.
Proof.
  intros Hn. pose proof (of_digits_lt (to_digits n) (to_digits_lt n)) as Hlt.
  rewrite of_to_digits in Hlt.
  destruct (Nat.le_gt_cases (length (to_digits n)) k) as [Hle|Hgt]; [exfalso|exact Hgt].
  assert (Hpow : b ^ N.of_nat (length (to_digits n)) <= b ^ N.of_nat k) by (apply N.pow_le_mono_r; lia).
  lia.
Qed.

(* splitting off leading zeros *)
Lemma lead_zeros_split ds : digits_lt ds ->
  ds = repeat 0 (lead_zeros ds) ++ skipn (lead_zeros ds) ds /\ canonical (skipn (lead_zeros ds) ds).
Proof.
  intros H. induction ds as [|d r IH]; cbn [lead_count].
  - split; [reflexivity|]. split; [constructor|cbn; lia].
  - inversion H as [|? ? Hd Hr]; subst. destruct (N.eqb_spec d 0) as [->|Hnz].
    + destruct (IH Hr) as [E C]. cbn [repeat skipn app]. split; [f_equal; exact E|exact C].
    + cbn [repeat skipn app]. split; [reflexivity|]. split; [exact H|exact Hnz].
Qed.

Lemma lead_zeros_canonical ds : hd 1 ds <> 0 -> lead_zeros ds = O.
Proof. destruct ds as [|d r]; [reflexivity|]. cbn [hd lead_count]. intros H. destruct (N.eqb_spec d 0); [contradiction|reflexivity]. Qed.

(* to_digits of the value of a string with leading zeros: the zeros are dropped (math/big Bytes, Text) *)
Lemma to_of_digits_strip ds : digits_lt ds -> to_digits (of_digits ds) = skipn (lead_zeros ds) ds.
Proof.
  intros H. destruct (lead_zeros_split ds H) as [E C].
  rewrite E at 1. rewrite of_digits_zeros. apply to_of_digits. exact C.
Qed.

End Digits.

(* ---------------- base 256 through shifts (what the checks evaluate) ---------------- *)

Fixpoint to_bytes_aux (fuel : nat) (n : N) (acc : list N) : list N :=
  match fuel with
  | O => acc
  | S f => if n =? 0 then acc else to_bytes_aux f (N.shiftr n 8) (N.land n 255 :: acc)
  end.
Definition to_bytes (n : N) : list N := to_bytes_aux (fuel_of n) n [].

Lemma to_bytes_aux_eq fuel : forall n acc, to_bytes_aux fuel n acc = to_digits_aux 256 fuel n acc.
Proof.
  induction fuel as [|f IH]; intros n acc; [reflexivity|].
  rewrite to_digits_aux_S. cbn [to_bytes_aux]. destruct (n =? 0); [reflexivity|].
  rewrite IH. rewrite N.shiftr_div_pow2. change 255 with (N.ones 8). rewrite N.land_ones. reflexivity.
Qed.

Lemma to_bytes_eq n : to_bytes n = to_digits 256 n.
Proof. apply to_bytes_aux_eq. Qed.
