(* Helpers shared by the Check/ files (evaluation of cases files). *)
From Coq Require Export NArith List Bool.
Export ListNotations.
Open Scope N_scope.
Open Scope bool_scope.

Fixpoint list_eqb {A} (e : A -> A -> bool) (a b : list A) : bool :=
  match a, b with
  | [], [] => true
  | x :: a', y :: b' => e x y && list_eqb e a' b'
  | _, _ => false
  end.

Definition pair_eqb (a b : N * N) : bool := (fst a =? fst b) && (snd a =? snd b).

Definition option_eqb {A} (e : A -> A -> bool) (a b : option A) : bool :=
  match a, b with
  | Some x, Some y => e x y
  | None, None => true
  | _, _ => false
  end.

Fixpoint bad_indices {A} (f : A -> bool) (l : list A) (i : N) : list N :=
  match l with
  | [] => []
  | x :: r => if f x then bad_indices f r (i + 1) else i :: bad_indices f r (i + 1)
  end.

(* property checkers return a code: 0 = holds, otherwise the number of the failed conjunct *)
Fixpoint bad_codes {A} (f : A -> N) (l : list A) (i : N) : list (N * N) :=
  match l with
  | [] => []
  | x :: r => let c := f x in if c =? 0 then bad_codes f r (i + 1) else (i, c) :: bad_codes f r (i + 1)
  end.

(* first failing conjunct of a list of (code, condition) *)
Fixpoint first_fail (l : list (N * bool)) : N :=
  match l with
  | [] => 0
  | (c, b) :: r => if b then first_fail r else c
  end.
