(* The configuration record.  Instances are GENERATED on every run by harness/cmd/paramdump
   (compiled against /repo's working tree under each build configuration) into Gen/Params.v. *)
From Coq Require Export NArith.
Open Scope N_scope.

Record config := {
  coin : N; block_reward : N; reduction_interval : N; max_supply : N; max_height : N;
  fee_percent : N; fee_per_byte : N; fee_per_byte_v2 : N;
  min_difficulty : N; difficulty_n : N; target_block_time : N; genesis_timestamp : N;
  future_time_limit : N; network_id : N; hf_v2 : N; hf_v3 : N;
  min_stake : N; register_burn : N; unlock_time : N;
  minidag_ancestors : N; max_side_blocks : N; max_tx_per_block : N; max_block_size : N;
  max_outputs : N; max_mm_chains : N; seedhash_duration : N; stratum_jobs_history : N;
  parallel_blocks : N;
  base_overhead : N; output_overhead : N; max_tx_size : N; max_tx_version : N;
  addr_size : N; pubkey_size : N; signature_size : N;
  wallet_prefix : list N; delegate_prefix : list N;   (* config.WALLET_PREFIX, config.DELEGATE_ADDRESS_PREFIX as byte codes *)
  cp_bin_len : N; cp_interval : N; cp_max : N; cp_bin_header : N; cp_digest_ok : bool;
  cfg_end : unit
}.
