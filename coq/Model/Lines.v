(* Model of what the text-line handlers do with a line AFTER encoding/json (C12, line families):
     util/enc/hex.go      Hex.UnmarshalJSON on the raw JSON token, encoding/hex Decode / DecodeString
     util/hash.go         Hash.UnmarshalJSON on the raw JSON token
     address/address.go   Integrated.UnmarshalJSON on the raw JSON token (FromString is Model/Address.v)
     util/util.go         ByteTargetToDiff (panics on a target that is not 4, 8 or 16 bytes long)
     block/block.go       Block.setMiningBlob's acceptance of a decoded mining blob
     blockchain/mergestratum.go   the body of AddStratum's job loop (merge-mining stratum CLIENT)
     blockchain/bc-stratum.go     handleConn: the login line and the submit / keepalived / other lines (stratum SERVER)
     rpc/rpcserver/handler.go + cmd/virel-node/noderpc.go   envelope and parameter acceptance of a JSON-RPC body
   encoding/json itself is not modelled: the harness decodes a line with the same library into mirror structures in
   which every custom-typed field is kept as its raw token ([option (list N)], None = field absent) and reports whether
   the standard-typed rest was accepted ([std_ok]).  Executable definitions only; every Go expression that can panic
   carries its run-time check (RPanic / LPanic / SCPanic constructors, never defaults). *)
From Virel Require Import Lib.Config Lib.U64 Model.Des Model.Codec Model.CodecBlock Model.Address.
Open Scope bool_scope.
Open Scope N_scope.

(* ------------------------------------------------------------------ encoding/hex *)
(* fromHexChar: 0-9 a-f A-F *)
Definition from_hex_char (c : N) : option N :=
  if (48 <=? c) && (c <=? 57) then Some (c - 48)
  else if (97 <=? c) && (c <=? 102) then Some (c - 87)
  else if (65 <=? c) && (c <=? 70) then Some (c - 55)
  else None.

(* hex.Decode(dst, src) with len(dst) >= len(src)/2: None = InvalidByteError or ErrLength *)
Fixpoint hex_decode (src : list N) : option (list N) :=
  match src with
  | [] => Some []
  | [_] => None
  | a :: b :: r =>
      match from_hex_char a, from_hex_char b with
      | Some x, Some y => match hex_decode r with Some t => Some (16 * x + y :: t) | None => None end
      | _, _ => None
      end
  end.

Definition QUOTE : N := 34.
(* c[1 : len(c)-1] for len(c) >= 2 *)
Definition middle (c : list N) : list N := removelast (tl c).
Definition last_byte (c : list N) : N := last c 0.

(* func (h *Hex) UnmarshalJSON(c []byte) error.  Note the second branch: ANY two-byte token (12, {}, [], "") is the empty
   value.  Allocation: make([]byte, hex.EncodedLen(len(c))) + the append of at most len(c)/2 bytes. *)
Definition hex_unmarshal_json (c : list N) : res (list N) :=
  if blen c <? 2 then RErr
  else if blen c =? 2 then ROk []
  else match c with
       | [] => RPanic                                   (* c[0] *)
       | c0 :: _ =>
           if negb (c0 =? QUOTE) || negb (last_byte c =? QUOTE) then RErr
           else match hex_decode (middle c) with Some b => ROk b | None => RErr end
       end.
Definition hex_unmarshal_alloc (c : list N) : N := 2 * blen c + blen c / 2.

(* a field of type enc.Hex that is absent keeps its zero value *)
Definition opt_hex (t : option (list N)) : res (list N) :=
  match t with None => ROk [] | Some c => hex_unmarshal_json c end.

(* func (m *Hash) UnmarshalJSON(c []byte) error: exactly 66 bytes, quoted, 64 hex digits into make([]byte, 32);
   [32]byte(dst) converts a 32-byte slice. *)
Definition hash_unmarshal_json (c : list N) : res (list N) :=
  if negb (blen c =? 66) then RErr
  else match c with
       | [] => RPanic
       | c0 :: _ =>
           if negb (c0 =? QUOTE) || negb (last_byte c =? QUOTE) then RErr
           else match hex_decode (middle c) with
                | Some b => if blen b =? 32 then ROk b else RPanic       (* [32]byte(dst) *)
                | None => RErr
                end
       end.

(* ------------------------------------------------------------------ targets *)
Definition two128m1 : N := 340282366920938463463374607431768211455.
Definition max_u64 : N := 18446744073709551615.
(* util.TargetToDiff / TargetToDiff64, low word of the result (AddStratum keeps .Lo); the 128-bit division is exact
   arithmetic here: C08 proves the word-level uint128 code equal to it and panic-free for a non-zero divisor *)
Definition target_to_diff (t : N) : N := if t =? 0 then 1 else (two128m1 / t) mod two64.
Definition target_to_diff64 (t : N) : N := if t =? 0 then 1 else (max_u64 / t) mod two64.

Definition byte_target_to_diff (t : list N) : res N :=
  if blen t =? 16 then ROk (target_to_diff (le_value t))
  else if blen t =? 8 then ROk (target_to_diff64 (le_value t))
  else if blen t =? 4 then ROk (target_to_diff64 (le_value t))
  else RPanic.                                           (* panic("invalid target size supplied") *)

Definition IS_MASTERCHAIN_ID : N := 15244028455943590085.   (* config/advanced.go: NETWORK_ID == 0xd38dab1d4676d0c5 *)

Section Lines.
Variable cfg : config.

Definition is_masterchain : bool := network_id cfg =? IS_MASTERCHAIN_ID.

(* ------------------------------------------------------------------ Block.setMiningBlob: accepted or not *)
Fixpoint smb_ok (chains others : list hashing_id) (contains first : bool) (last : N) : bool :=
  match chains with
  | [] => contains
  | v :: r =>
      if negb first && (hid_network v <=? last) then false
      else if negb (hid_network v =? network_id cfg) then
        if existsb (fun oc => bytes_eq (hid_hash oc) (hid_hash v) || (hid_network oc =? hid_network v)) others then false
        else smb_ok r (others ++ [v]) contains false (hid_network v)
      else if contains then false
      else smb_ok r others true false (hid_network v)
  end.
Definition set_mining_blob_ok (m : mining_blob) : bool := smb_ok (mb_chains m) [] false true 0.

(* ------------------------------------------------------------------ merge-mining stratum client *)
Inductive sc_out := SCAccept (jid : list N) (diff net : N) | SCRefuse | SCPanic.

(* the body of the loop of AddStratum for one job; [guarded] = false is the loop without its target-length test *)
Definition add_stratum_job_gen (guarded : bool) (blob target jid : list N) : sc_out :=
  match run (dec_blob cfg) blob with
  | MPanic => SCPanic
  | MErr _ => SCRefuse
  | MOk m _ =>
      match mb_chains m with
      | [c] =>
          if guarded && negb ((blen target =? 16) || (blen target =? 8) || (blen target =? 4)) then SCRefuse
          else match byte_target_to_diff target with
               | ROk d => SCAccept jid d (hid_network c)
               | RErr => SCRefuse
               | RPanic => SCPanic
               end
      | _ => SCRefuse
      end
  end.
Definition add_stratum_job := add_stratum_job_gen true.

(* a job as the harness hands it over: standard-typed part accepted?, raw tokens of blob / target / seed_hash, job id *)
Inductive sc_job := SCJobL (std_ok : bool) (blob target seed : option (list N)) (jobid : list N).
Inductive sc_ev := EvEnd | EvSkip | EvJob (j : sc_job).

(* json.Unmarshal of the job: Some (blob, target) when every custom-typed field is accepted *)
Inductive job_dec := JDOk (blob target : list N) | JDErr | JDPanic.
Definition decode_job (j : sc_job) : job_dec :=
  match j with
  | SCJobL std_ok b t s _ =>
      if negb std_ok then JDErr
      else match opt_hex b, opt_hex t, opt_hex s with
           | RPanic, _, _ | _, RPanic, _ | _, _, RPanic => JDPanic
           | ROk bb, ROk tg, ROk _ => JDOk bb tg
           | _, _, _ => JDErr
           end
  end.
Definition job_id_of (j : sc_job) : list N := match j with SCJobL _ _ _ _ id => id end.

Definition sc_state : Type := (list N * N * N)%type.      (* JobID, Difficulty, HashingID.NetworkID *)
Definition sc_init : sc_state := ([], 0, 0).

(* AddStratum after a successful login.  Result class: 0 the job channel was closed (stream ended or the reader
   refused a line), 1 AddStratum refused a job and closed the client, 2 panic. *)
Fixpoint sc_run (st : sc_state) (evs : list sc_ev) : N * sc_state :=
  match evs with
  | [] => (0, st)
  | EvEnd :: _ => (0, st)
  | EvSkip :: r => sc_run st r
  | EvJob j :: r =>
      match decode_job j with
      | JDPanic => (2, st)
      | JDErr => (0, st)                                   (* scanJobs returns: the channels are closed *)
      | JDOk b t =>
          match add_stratum_job b t (job_id_of j) with
          | SCPanic => (2, st)
          | SCRefuse => (1, st)
          | SCAccept jid d n => sc_run (jid, d, n) r
          end
      end
  end.

(* Client.Start on the login response: accepted iff the JSON layer accepted it (Some) and every hex field decodes *)
Definition sc_login (login : option sc_job) : N :=
  match login with
  | None => 1
  | Some j => match decode_job j with JDOk _ _ => 0 | JDErr => 1 | JDPanic => 2 end
  end.

(* ------------------------------------------------------------------ stratum server *)
Inductive line_out := LDrop (responded : bool) | LKeep (responded : bool) | LPanic.

Definition MERGE_PREFIX : list N := [109; 101; 114; 103; 101; 45; 109; 105; 110; 105; 110; 103; 58].   (* "merge-mining:" *)
Definition T_LOGIN : list N := [108; 111; 103; 105; 110].
Definition T_SUBMIT : list N := [115; 117; 98; 109; 105; 116].
Definition T_KEEPALIVED : list N := [107; 101; 101; 112; 97; 108; 105; 118; 101; 100].

Definition addr_usable (r : parse_result) : line_out :=
  match r with
  | PPanic => LPanic
  | PErr => LDrop true
  | POk a _ => if list_N_eqb a (zero_addr cfg) then LDrop true else LKeep true
  end.

(* the first line of a connection (a block template is ready) *)
Definition srv_login (json_ok : bool) (method : list N) (std_ok : bool) (text : list N) : line_out :=
  if negb json_ok then LDrop false
  else if negb (list_N_eqb method T_LOGIN) then LDrop true
  else if negb std_ok then LDrop true
  else match parse_addr cfg text with
       | PPanic => LPanic
       | PErr =>
           if (blen MERGE_PREFIX <? blen text) && has_prefix MERGE_PREFIX text then
             if is_masterchain then LDrop true
             else addr_usable (parse_addr cfg (skipn (length MERGE_PREFIX) text))
           else LDrop true
       | r => addr_usable r
       end.

(* a submit line after a login.  [known]: the job id names a job the connection holds. *)
Definition srv_submit (std_ok : bool) (nonce : list N) (blob extra : option (list N)) (known : bool) : line_out :=
  if negb std_ok then LDrop true
  else match opt_hex blob, opt_hex extra with
       | RPanic, _ | _, RPanic => LPanic
       | ROk b, ROk x =>
           match hex_decode nonce with
           | None => LDrop true
           | Some nb =>
               match run stratum_nonce nb with
               | MPanic => LPanic
               | MErr _ => LDrop true                    (* "malformed job" *)
               | MOk _ _ =>
                   if negb known then LKeep true          (* "stale job" *)
                   else
                     let extra_ok := if blen x =? 16 then match run (to_array 16 x) [] with MPanic => false | _ => true end else true in
                     if negb extra_ok then LPanic
                     else if blen b =? 0 then LKeep true   (* judged: block found or "invalid block" *)
                     else if is_masterchain then LDrop true
                     else match run (dec_blob cfg) b with
                          | MPanic => LPanic
                          | MErr _ => LDrop true
                          | MOk m _ => if set_mining_blob_ok m then LKeep true else LDrop true
                          end
               end
           end
       | _, _ => LDrop true                                (* json.Unmarshal of the parameters fails *)
       end.

Definition srv_line (json_ok : bool) (method : list N) (std_ok : bool) (nonce : list N) (blob extra : option (list N)) (known : bool) : line_out :=
  if negb json_ok then LDrop false
  else if list_N_eqb method T_SUBMIT then srv_submit std_ok nonce blob extra known
  else if list_N_eqb method T_KEEPALIVED then LKeep true
  else LKeep false.

(* ------------------------------------------------------------------ JSON-RPC *)
(* a custom-typed parameter: kind 1 util.Hash, 2 enc.Hex, 3 address.Integrated; raw token (None = absent) *)
Inductive rfield := RF (kind : N) (tok : option (list N)).

Definition integrated_unmarshal_json (c : list N) : res (list N) :=
  if blen c <? 2 then RErr
  else match c with
       | [] => RPanic
       | c0 :: _ =>
           if negb (c0 =? QUOTE) || negb (last_byte c =? QUOTE) then RErr
           else match parse_addr cfg (middle c) with POk a _ => ROk a | PErr => RErr | PPanic => RPanic end
       end.

Definition rfield_dec (f : rfield) : res (list N) :=
  match f with
  | RF _ None => ROk []
  | RF k (Some c) => if k =? 1 then hash_unmarshal_json c else if k =? 2 then hex_unmarshal_json c else integrated_unmarshal_json c
  end.

(* 0 all accepted, 1 one refused, 2 panic *)
Fixpoint rfields_class (l : list rfield) : N :=
  match l with
  | [] => 0
  | f :: r => match rfield_dec f with RPanic => 2 | RErr => 1 | ROk _ => rfields_class r end
  end.

Definition M_GET_BLOCK_BY_HASH := [103;101;116;95;98;108;111;99;107;95;98;121;95;104;97;115;104].
Definition M_GET_BLOCK_BY_HEIGHT := [103;101;116;95;98;108;111;99;107;95;98;121;95;104;101;105;103;104;116].
Definition M_GET_TRANSACTION := [103;101;116;95;116;114;97;110;115;97;99;116;105;111;110].
Definition M_GET_INFO := [103;101;116;95;105;110;102;111].
Definition M_SUBMIT_TRANSACTION := [115;117;98;109;105;116;95;116;114;97;110;115;97;99;116;105;111;110].
Definition M_GET_ADDRESS := [103;101;116;95;97;100;100;114;101;115;115].
Definition M_GET_TX_LIST := [103;101;116;95;116;120;95;108;105;115;116].
Definition M_VALIDATE_ADDRESS := [118;97;108;105;100;97;116;101;95;97;100;100;114;101;115;115].
Definition M_SUBMIT_STAKE_SIGNATURE := [115;117;98;109;105;116;95;115;116;97;107;101;95;115;105;103;110;97;116;117;114;101].
Definition M_GET_DELEGATE := [103;101;116;95;100;101;108;101;103;97;116;101].
Definition M_GET_RICH_LIST := [103;101;116;95;114;105;99;104;95;108;105;115;116].
Definition M_CALC_POW := [99;97;108;99;95;112;111;119].
Definition T_2_0 := [50; 46; 48].
Definition T_INCOMING := [105;110;99;111;109;105;110;103].
Definition T_OUTGOING := [111;117;116;103;111;105;110;103].

Definition no_params_methods := [M_GET_INFO; M_GET_RICH_LIST].
Definition params_methods := [M_GET_BLOCK_BY_HASH; M_GET_BLOCK_BY_HEIGHT; M_GET_TRANSACTION; M_SUBMIT_TRANSACTION; M_GET_ADDRESS;
  M_GET_TX_LIST; M_VALIDATE_ADDRESS; M_SUBMIT_STAKE_SIGNATURE; M_GET_DELEGATE; M_CALC_POW].
Definition mem_text (m : list N) (l : list (list N)) : bool := existsb (list_N_eqb m) l.

(* expected answer: RX status kind code_is_negative |code|  (kind 0 result, 1 error object, 2 no JSON-RPC body);
   RPass: the request passed envelope and parameter decoding, the answer (a result or an error of the method's own:
   not found, validation failed, ...) depends on the node's state and is not modelled *)
Inductive rexp := RX (status kind : N) (neg : bool) (code : N) | RPass | RPanicX.

Definition PARSE_ERROR := RX 200 1 true 32700.

Definition rpc_method (method : list N) (fields : list rfield) (addr ttype : list N) (top : N) : rexp :=
  if list_N_eqb method M_SUBMIT_STAKE_SIGNATURE then
    match fields with
    | [h; s] =>
        match rfield_dec h, rfield_dec s with
        | ROk hb, ROk sb => if (blen hb =? 32) && (blen sb =? signature_size cfg) then RX 200 0 false 0 else RX 200 1 true 1
        | _, _ => RPanicX
        end
    | _ => RPanicX
    end
  else if list_N_eqb method M_SUBMIT_TRANSACTION then
    match fields with
    | [x] =>
        match rfield_dec x with
        | ROk b => match run (dec_tx cfg (hf_v2 cfg <=? top + 1)) b with
                   | MPanic => RPanicX
                   | MErr _ => RX 200 1 true 32602
                   | MOk _ _ => RPass
                   end
        | _ => RPanicX
        end
    | _ => RPanicX
    end
  else if list_N_eqb method M_GET_ADDRESS then
    match parse_addr cfg addr with PPanic => RPanicX | PErr => RX 200 1 true 32602 | POk _ _ => RPass end
  else if list_N_eqb method M_VALIDATE_ADDRESS then
    match parse_addr cfg addr with PPanic => RPanicX | _ => RX 200 0 false 0 end
  else if list_N_eqb method M_GET_TX_LIST then
    if list_N_eqb ttype T_INCOMING || list_N_eqb ttype T_OUTGOING then RX 200 0 false 0 else RX 200 1 true 32602
  else RPass.

(* http: 0 POST, 1 OPTIONS, 2 HEAD, 3 any other method.  [method] is already lower-cased by the harness the way
   the handler does (strings.ToLower). *)
Definition rpc_expect (http body_len : N) (json_ok : bool) (jsonrpc method : list N) (has_params std_ok : bool)
    (fields : list rfield) (addr ttype : list N) (top : N) : rexp :=
  if http =? 1 then RX 204 2 false 0
  else if http =? 2 then RX 405 2 false 0
  else if negb (http =? 0) then RX 405 1 false 405
  else if (body_len <? 2) || negb json_ok then PARSE_ERROR
  else if negb (list_N_eqb jsonrpc T_2_0) then RX 200 1 true 32600
  else if mem_text method no_params_methods then RPass
  else if negb (mem_text method params_methods) then RX 200 1 true 32601
  else if negb has_params || negb std_ok then PARSE_ERROR
  else match rfields_class fields with
       | 0 => rpc_method method fields addr ttype top
       | 1 => PARSE_ERROR
       | _ => RPanicX
       end.

End Lines.
