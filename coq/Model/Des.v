(* Model of binary/manualser.go (Ser) and binary/manualdes.go (Des) over byte lists.  Executable definitions only.

   Bytes are [N] (< 256 when they come from Go).  A decoder is a state transformer over the Des state
   (remaining data, the sticky error of Des, an allocation counter) with a three-way result:
     MOk a s   the Go function went on with value a in state s (s may carry the sticky error),
     MErr n    the enclosing Go decoder executed "return <non-nil error>" (n = bytes allocated so far),
     MPanic    the Go code hit a run-time panic.
   Every Go slice expression / conversion that can panic is transcribed through [split_at] / [to_array]
   with its run-time bounds check, so that the model predicts exactly which inputs panic. *)
From Virel Require Export Lib.U64.
From Coq Require Export ZArith Bool.
Open Scope N_scope.

Definition blen {A} (l : list A) : N := N.of_nat (length l).

(* len(l) < n, without walking more than n cells *)
Fixpoint lenltb (l : list N) (n : N) : bool :=
  match l with
  | [] => 0 <? n
  | _ :: r => if n =? 0 then false else lenltb r (n - 1)
  end.

(* l[:n], l[n:] with Go's run-time check: None = "slice bounds out of range" (n > len l; cap = len for all
   slices the decoders are handed: Des never re-slices beyond len) *)
Fixpoint split_at (l : list N) (n : N) : option (list N * list N) :=
  if n =? 0 then Some ([], l)
  else match l with
       | [] => None
       | x :: r => match split_at r (n - 1) with
                   | Some (a, b) => Some (x :: a, b)
                   | None => None
                   end
       end.

Definition zeros (n : N) : list N := repeat 0 (N.to_nat n).

(* a == b for byte arrays *)
Fixpoint bytes_eq (a b : list N) : bool :=
  match a, b with
  | [], [] => true
  | x :: a', y :: b' => (x =? y) && bytes_eq a' b'
  | _, _ => false
  end.

(* ------------------------------------------------------------------ Ser *)

(* binary.LittleEndian.AppendUintXX *)
Fixpoint le_bytes (n : nat) (x : N) : list N :=
  match n with
  | O => []
  | S k => (x mod 256) :: le_bytes k (x / 256)
  end.
Definition add_u8 (x : N) : list N := [x].
Definition add_u16 (x : N) : list N := le_bytes 2 x.
Definition add_u32 (x : N) : list N := le_bytes 4 x.
Definition add_u64 (x : N) : list N := le_bytes 8 x.

(* encoding/binary.AppendUvarint: for x >= 0x80 { append(byte(x)|0x80); x >>= 7 }; append(byte(x)).
   At most 9 iterations of the loop for a uint64. *)
Fixpoint put_uvarint_f (fuel : nat) (x : N) : list N :=
  match fuel with
  | O => [x mod 256]
  | S k => if 128 <=? x then N.lor (x mod 256) 128 :: put_uvarint_f k (x / 128) else [x mod 256]
  end.
Definition put_uvarint (x : N) : list N := put_uvarint_f 9 x.

(* Ser.AddByteSlice / AddString: uvarint(len) ++ bytes *)
Definition add_byte_slice (a : list N) : list N := put_uvarint (blen a) ++ a.

(* ------------------------------------------------------------------ encoding/binary.Uvarint *)

(* uint64(b) << s *)
Definition wshl (b s : N) : N := (b * 2 ^ s) mod two64.

(* returns (value, n): n > 0 bytes read; n = 0 buffer too small; n < 0 overflow (-(bytes read)) *)
Fixpoint uvarint_go (buf : list N) (i x s : N) : N * Z :=
  match buf with
  | [] => (0, 0%Z)
  | b :: r =>
      if i =? 10 then (0, (- Z.of_N (i + 1))%Z)
      else if b <? 128 then
        if (i =? 9) && (1 <? b) then (0, (- Z.of_N (i + 1))%Z)
        else (N.lor x (wshl b s), Z.of_N (i + 1))
      else uvarint_go r (i + 1) (N.lor x (wshl (N.land b 127) s)) (s + 7)
  end.
Definition uvarint (buf : list N) : N * Z := uvarint_go buf 0 0 0.

(* binary.LittleEndian.UintXX on a slice of exactly the right length *)
Fixpoint le_value (b : list N) : N :=
  match b with
  | [] => 0
  | x :: r => x + 256 * le_value r
  end.

(* int(x) for x : uint64 on a 64-bit platform *)
Definition int_of_u64 (x : N) : Z := if x <? 9223372036854775808 then Z.of_N x else (Z.of_N x - 18446744073709551616)%Z.

(* len(l) < z for a (signed) int z *)
Definition len_lt_int (l : list N) (z : Z) : bool :=
  match z with
  | Zpos p => lenltb l (Npos p)
  | _ => false
  end.

(* ------------------------------------------------------------------ Des *)

Record des := mkdes { d_data : list N; d_err : bool; d_alloc : N }.

Inductive mres (A : Type) : Type :=
| MOk (a : A) (s : des)
| MErr (alloc : N)
| MPanic.
Arguments MOk {A} a s.
Arguments MErr {A} alloc.
Arguments MPanic {A}.

Definition M (A : Type) : Type := des -> mres A.

Definition ret {A} (a : A) : M A := fun s => MOk a s.
Definition bind {A B} (m : M A) (f : A -> M B) : M B :=
  fun s => match m s with
           | MOk a s' => f a s'
           | MErr n => MErr n
           | MPanic => MPanic
           end.
Notation "x <- m ;; f" := (bind m (fun x => f)) (at level 61, m at next level, right associativity).
Notation "m ;;; f" := (bind m (fun _ => f)) (at level 61, right associativity).

(* "return err" of the enclosing decoder function *)
Definition fail {A} : M A := fun s => MErr (d_alloc s).
Definition panic {A} : M A := fun _ => MPanic.

Definition set_err (s : des) : des := mkdes (d_data s) true (d_alloc s).
Definition with_data (s : des) (l : list N) : des := mkdes l (d_err s) (d_alloc s).

(* d.Error() != nil *)
Definition has_err : M bool := fun s => MOk (d_err s) s.
(* "return value, d.Error()" *)
Definition ret_err {A} (a : A) : M A := fun s => if d_err s then MErr (d_alloc s) else MOk a s.
(* if d.Error() != nil { return d.Error() } *)
Definition check_err : M unit := ret_err tt.
(* d.RemainingData() *)
Definition remaining : M (list N) := fun s => MOk (d_data s) s.
(* n bytes allocated by make / append / new driven by the input *)
Definition alloc (n : N) : M unit := fun s => MOk tt (mkdes (d_data s) (d_err s) (d_alloc s + n)).
(* run a sub-decoder over its own Des (binary.NewDes(sl)); allocation is carried over *)
Definition sub_des {A} (sl : list N) (m : M A) : M A :=
  fun s => match m (mkdes sl false (d_alloc s)) with
           | MOk a s' => MOk a (mkdes (d_data s) (d_err s) (d_alloc s'))
           | MErr n => MErr n
           | MPanic => MPanic
           end.

(* [n]byte(sl): panics when len(sl) < n, otherwise the first n bytes *)
Definition to_array (n : N) (sl : list N) : M (list N) :=
  fun s => match split_at sl n with
           | Some (a, _) => MOk a s
           | None => MPanic
           end.

Definition read_u8 : M N := fun s =>
  if d_err s then MOk 0 s
  else match d_data s with
       | [] => MOk 0 (set_err s)                  (* len(s.data) < 1 *)
       | b :: r => MOk b (with_data s r)          (* s.data[0]; s.data[1:] *)
       end.

(* ReadUint16/32/64 with n = 2/4/8: b := s.data[:n]; s.data = s.data[n:]; LittleEndian.UintXX(b) *)
Definition read_le (n : N) : M N := fun s =>
  if d_err s then MOk 0 s
  else if lenltb (d_data s) n then MOk 0 (set_err s)
  else match split_at (d_data s) n with
       | Some (b, r) => MOk (le_value b) (with_data s r)
       | None => MPanic
       end.
Definition read_u16 := read_le 2.
Definition read_u32 := read_le 4.
Definition read_u64 := read_le 8.

Definition read_uvarint : M N := fun s =>
  if d_err s then MOk 0 s
  else if lenltb (d_data s) 1 then MOk 0 (set_err s)
  else let '(d, x) := uvarint (d_data s) in
       if (x <? 0)%Z then MOk 0 (set_err s)
       else match split_at (d_data s) (Z.to_N x) with   (* s.data = s.data[x:]; x = 0 for a truncated varint *)
            | Some (_, r) => MOk d (with_data s r)
            | None => MPanic
            end.

(* ReadFixedByteArray(length): length is a non-negative constant at every call site *)
Definition read_fixed (n : N) : M (list N) := fun s =>
  if d_err s then MOk (zeros n) (mkdes (d_data s) (d_err s) (d_alloc s + n))     (* make([]byte, length) *)
  else if lenltb (d_data s) n then MOk (zeros n) (mkdes (d_data s) true (d_alloc s + n))
  else match split_at (d_data s) n with
       | Some (b, r) => MOk b (with_data s r)
       | None => MPanic
       end.

(* ReadByteSlice.  [fixed] = false: the code as found (len(s.data) < int(length));
   [fixed] = true: after the repair (uint64(len(s.data)) < length). *)
Definition read_byte_slice_gen (fixed : bool) : M (list N) := fun s =>
  if d_err s then MOk [] s
  else if lenltb (d_data s) 1 then MOk [] (set_err s)
  else let '(length, read) := uvarint (d_data s) in
       if (read <? 0)%Z then MOk [] (set_err s)
       else match split_at (d_data s) (Z.to_N read) with          (* s.data = s.data[read:] *)
            | None => MPanic
            | Some (_, r) =>
                let short := if fixed then lenltb r length else len_lt_int r (int_of_u64 length) in
                if short then MOk [] (mkdes r true (d_alloc s))
                else match split_at r length with                 (* b := s.data[:length]; s.data = s.data[length:] *)
                     | Some (b, r') => MOk b (mkdes r' (d_err s) (d_alloc s))
                     | None => MPanic
                     end
            end.

(* the tree under test: follows /repo (see KNOWN_FINDINGS.json, R4) *)
Definition read_byte_slice : M (list N) := read_byte_slice_gen true.

(* ReadString: string(ReadByteSlice()) copies the bytes *)
Definition read_string : M (list N) := b <- read_byte_slice ;; alloc (blen b) ;;; ret b.

(* repeat a decoder n times, collecting results (for i := range make([]T, n)) *)
Fixpoint rep {A} (n : nat) (m : M A) : M (list A) :=
  match n with
  | O => ret []
  | S k => a <- m ;; l <- rep k m ;; ret (a :: l)
  end.

(* ------------------------------------------------------------------ running a decoder on a byte string *)

Inductive res (A : Type) : Type := ROk (a : A) | RErr | RPanic.
Arguments ROk {A} a.
Arguments RErr {A}.
Arguments RPanic {A}.

Definition init (bs : list N) : des := mkdes bs false 0.
Definition result_of {A} (r : mres A) : res A :=
  match r with MOk a _ => ROk a | MErr _ => RErr | MPanic => RPanic end.
Definition alloc_of {A} (r : mres A) : N :=
  match r with MOk _ s => d_alloc s | MErr n => n | MPanic => 0 end.
Definition run {A} (m : M A) (bs : list N) : mres A := m (init bs).

(* 16 little-endian bytes <-> Uint128 as one N; PutBytes + "trim trailing zero bytes" *)
Fixpoint trim_zeros_rev (l : list N) : list N :=   (* on the reversed list: drop leading zeros *)
  match l with
  | 0 :: r => trim_zeros_rev r
  | _ => l
  end.
Definition trim_trailing_zeros (l : list N) : list N := rev (trim_zeros_rev (rev l)).
Definition u128_trimmed (x : N) : list N := trim_trailing_zeros (le_bytes 16 x).
(* diff := make([]byte,16); copy(diff, sl); Uint128{Lo: LE(diff[:8]), Hi: LE(diff[8:])} *)
Definition pad16 (sl : list N) : list N := firstn 16 (sl ++ zeros 16).
Definition u128_of_slice (sl : list N) : N := le_value (pad16 sl).
