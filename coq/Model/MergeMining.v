(* Model of the merge-mining part of package block: block/block.go (setMiningBlob, SortOtherChains),
   block/commitment.go (BaseHash, Commitment, HashingID, MiningBlob) and the blob of block/miningblob.go.
   Executable definitions only.

   Hashes are symbolic: [H] is the type of 32-byte hash values, [hash_block] stands for Block.Hash
   (blake3 of Block.Serialize) and [hash_hid] for the blake3 call of Commitment.HashingID.  Fields whose structure
   plays no role here (nonce extra, recipient, side blocks, signature, difficulties, transaction list) are values
   of an arbitrary countable set, represented by N. *)
From Coq Require Import Bool.
From Virel Require Export Lib.Config Lib.U64.
From Virel Require Import Lib.CheckLib.
Open Scope bool_scope.
Open Scope N_scope.

Section MergeMining.
Variable cfg : config.
Variable H : Type.
Variable Heqb : H -> H -> bool.

(* block.HashingID *)
Definition hashing_id : Type := (N * H)%type.
Definition hid_net (x : hashing_id) : N := fst x.
Definition hid_hash (x : hashing_id) : H := snd x.

(* block.Block (BlockHeader fields first, in declaration order) *)
Record block := mkblock {
  b_version : N; b_height : N; b_timestamp : N; b_nonce : N; b_nonce_extra : N;
  b_other_chains : list hashing_id; b_recipient : N; b_ancestors : list H; b_side_blocks : N;
  b_delegate_id : N; b_next_delegate_id : N; b_stake_sig : N;
  b_difficulty : N; b_cumulative_diff : N; b_txs : N }.

(* block.MiningBlob *)
Record blob := mkblob { m_timestamp : N; m_nonce : N; m_nonce_extra : N; m_chains : list hashing_id }.

Definition blank_sig : N := 0.        (* bitcrypto.Signature{} *)
Definition zero_extra : N := 0.       (* [16]byte{} *)

(* ---- setMiningBlob ----
   the loop "for i, v := range m.Chains"; state: OtherChains built so far, containsNetworkID, i, lastNetworkId.
   None = an error is returned. *)
Definition is_dup (others : list hashing_id) (v : hashing_id) : bool :=
  existsb (fun oc => Heqb (hid_hash oc) (hid_hash v) || (hid_net oc =? hid_net v)) others.

Fixpoint smb_loop (chains others : list hashing_id) (contains : bool) (i last : N) : option (list hashing_id) :=
  match chains with
  | [] => if contains then Some others else None        (* "does not contain current network id" *)
  | v :: r =>
      if (0 <? i) && (hid_net v <=? last) then None      (* "not sorted correctly" *)
      else if negb (hid_net v =? network_id cfg) then
        if is_dup others v then None                     (* "duplicate hashing id" *)
        else smb_loop r (others ++ [v]) contains (i + 1) (hid_net v)
      else
        if contains then None                            (* "duplicate network id" *)
        else smb_loop r others true (i + 1) (hid_net v)
  end.

Inductive smb_result := SmbOk (b : block) | SmbErr.

Definition set_mining_blob (b : block) (m : blob) : smb_result :=
  match smb_loop (m_chains m) [] false 0 0 with
  | Some others =>
      SmbOk (mkblock (b_version b) (b_height b) (m_timestamp m) (m_nonce m) (m_nonce_extra m)
                     others (b_recipient b) (b_ancestors b) (b_side_blocks b)
                     (b_delegate_id b) (b_next_delegate_id b) (b_stake_sig b)
                     (b_difficulty b) (b_cumulative_diff b) (b_txs b))
  | None => SmbErr
  end.

(* ---- slices.SortFunc with the comparator that panics on equal network ids (SortOtherChains, MiningBlob) ----
   modelled by insertion sort; None = panic.  Any comparison sort compares two entries with equal keys if there
   are any, and returns the unique strictly ascending arrangement otherwise, so the result does not depend on the
   algorithm (checked against Go's pdqsort by the correspondence run). *)
Fixpoint insert_chain (x : hashing_id) (l : list hashing_id) : option (list hashing_id) :=
  match l with
  | [] => Some [x]
  | y :: r =>
      if hid_net x <? hid_net y then Some (x :: y :: r)
      else if hid_net y <? hid_net x then option_map (cons y) (insert_chain x r)
      else None
  end.

Fixpoint sort_chains (l : list hashing_id) : option (list hashing_id) :=
  match l with
  | [] => Some []
  | x :: r => match sort_chains r with Some s => insert_chain x s | None => None end
  end.

(* ---- BaseHash: the fields it clears ---- *)
Definition base_mask (b : block) : block :=
  mkblock (b_version b) (b_height b) 0 0 zero_extra
          [] (b_recipient b) (b_ancestors b) (b_side_blocks b)
          (b_delegate_id b) 0 blank_sig
          (b_difficulty b) (b_cumulative_diff b) (b_txs b).

(* ---- what Block.Serialize (hence Block.Hash) depends on ----
   a zero difficulty makes Serialize return nil; the three proof-of-stake fields are written only when Version > 0 *)
Definition ser_norm (b : block) : block :=
  if b_difficulty b =? 0 then mkblock 0 0 0 0 0 [] 0 [] 0 0 0 0 0 0 0
  else if b_version b =? 0 then
    mkblock (b_version b) (b_height b) (b_timestamp b) (b_nonce b) (b_nonce_extra b)
            (b_other_chains b) (b_recipient b) (b_ancestors b) (b_side_blocks b)
            0 0 blank_sig (b_difficulty b) (b_cumulative_diff b) (b_txs b)
  else b.

Definition hid_eqb (x y : hashing_id) : bool := (hid_net x =? hid_net y) && Heqb (hid_hash x) (hid_hash y).

Definition block_eqb (a b : block) : bool :=
  (b_version a =? b_version b) && (b_height a =? b_height b) && (b_timestamp a =? b_timestamp b) &&
  (b_nonce a =? b_nonce b) && (b_nonce_extra a =? b_nonce_extra b) &&
  list_eqb hid_eqb (b_other_chains a) (b_other_chains b) && (b_recipient a =? b_recipient b) &&
  list_eqb Heqb (b_ancestors a) (b_ancestors b) && (b_side_blocks a =? b_side_blocks b) &&
  (b_delegate_id a =? b_delegate_id b) && (b_next_delegate_id a =? b_next_delegate_id b) &&
  (b_stake_sig a =? b_stake_sig b) && (b_difficulty a =? b_difficulty b) &&
  (b_cumulative_diff a =? b_cumulative_diff b) && (b_txs a =? b_txs b).

Section Hashing.
Variable hash_block : block -> H.          (* Block.Hash *)
Variable hash_hid : H -> list H -> H.      (* blake3(base hash ++ ancestors) *)

Definition base_hash (b : block) : H := hash_block (base_mask b).

(* Commitment().HashingID() *)
Definition own_hid (b : block) : hashing_id := (network_id cfg, hash_hid (base_hash b) (b_ancestors b)).

(* Commitment().MiningBlob(); None = panic of the comparator *)
Definition mining_blob (b : block) : option blob :=
  match sort_chains (b_other_chains b ++ [own_hid b]) with
  | Some cs => Some (mkblob (b_timestamp b) (b_nonce b) (b_nonce_extra b) cs)
  | None => None
  end.
End Hashing.

(* Commitment().MiningBlob() with the hashing id given (used by the correspondence run, where the hashing id is
   Go's value) *)
Definition mining_blob_with (own : hashing_id) (b : block) : option blob :=
  match sort_chains (b_other_chains b ++ [own]) with
  | Some cs => Some (mkblob (b_timestamp b) (b_nonce b) (b_nonce_extra b) cs)
  | None => None
  end.

(* the checks PrevalidateBlock makes on OtherChains: no entry of this network, no two entries with the same hash
   or the same network id *)
Fixpoint nodup_chains (l : list hashing_id) : bool :=
  match l with
  | [] => true
  | v :: r => negb (existsb (fun w => Heqb (hid_hash v) (hid_hash w) || (hid_net v =? hid_net w)) r) && nodup_chains r
  end.
Definition validated_other_chains (l : list hashing_id) : bool :=
  forallb (fun v => negb (hid_net v =? network_id cfg)) l && nodup_chains l.

End MergeMining.

Arguments SmbOk {H} b.
Arguments SmbErr {H}.
