(* Model of package wallet (wallet/wallet.go, wallet/dbread.go, wallet/seed.go).  Executable definitions only.

   (1) the transaction builders Transfer / RegisterDelegate / SetDelegate / Stake / Unstake and checkAndSignTx,
       transcribed with Go's uint64 wrap-around; the result is a [tx] of Model/Ledger.v, so that the node's
       stateless validation [prevalidate_tx] applies to it unchanged;
   (2) the wallet file: header (salt, Argon2 time, Argon2 memory) ++ AES-GCM ciphertext, with symbolic
       cryptography: the KDF is a free constructor of its four inputs, a ciphertext is [Sealed key nonce payload]
       or [Junk]; the library's behaviour on raw cost parameters (panic on time = 0, allocation of mem KiB) is explicit;
   (3) mnemonics: BIP-39 encode/decode and the SLIP-10 derivation are Section variables (library code).

   Symbolic identifiers as in Model/Ledger.v: keys are numbers, address of key k = 2*k+1, delegate address = 2*id. *)
From Virel Require Export Lib.Config Lib.U64 Model.Ledger.
Open Scope N_scope.
Open Scope bool_scope.

(* ------------------------------------------------------------------ (1) transaction builders *)

(* transaction.Output *)
Record wout := mkwout { wo_rcpt : N; wo_pid : N; wo_amt : N }.

Inductive request :=
| RTransfer (outs : list wout) (has_version : bool)      (* Wallet.Transfer(outputs, hasVersion) *)
| RRegister (name_len name id : N)                       (* Wallet.RegisterDelegate(name, id) *)
| RSetDelegate (new_id prev_id : N)                      (* Wallet.SetDelegate(delegateId, previousId) *)
| RStake (id amt prev_unlock : N)                        (* Wallet.Stake(delegateId, amount, prevUnlock) *)
| RUnstake (id amt : N).                                 (* Wallet.Unstake(delegateId, amount) *)

(* the fields of Wallet the builders read *)
Record wstate := mkwstate {
  w_key : N;                (* dbInfo.PrivateKey / its public key *)
  w_key_invalid : bool;     (* address.FromPubKey(public key) = INVALID_ADDRESS *)
  w_bal : N;                (* mempoolBal *)
  w_nonce : N               (* mempoolNonce *)
}.

Definition same_dest (a b : wout) : bool := (wo_rcpt a =? wo_rcpt b) && (wo_pid a =? wo_pid b).

(* inner loop of Transfer for a fixed i: every later output with the same (recipient, payment id) is added
   to outputs[i] (uint64 +=) and removed; the others keep their order *)
Fixpoint absorb (o : wout) (r : list wout) : wout * list wout :=
  match r with
  | [] => (o, [])
  | x :: r' =>
      if same_dest o x then absorb (mkwout (wo_rcpt o) (wo_pid o) (wadd (wo_amt o) (wo_amt x))) r'
      else let '(o', k) := absorb o r' in (o', x :: k)
  end.

(* outer loop; the fuel is the length of the list (the remainder gets shorter at every step) *)
Fixpoint merge_fuel (n : nat) (l : list wout) : list wout :=
  match n, l with
  | S k, o :: r => let '(o', r') := absorb o r in o' :: merge_fuel k r'
  | _, _ => []
  end.
Definition merge_outputs (l : list wout) : list wout := merge_fuel (length l) l.

Definition sum_amts (l : list wout) : N := fold_right (fun o s => wo_amt o + s) 0 l.
Definition drop_pid (o : wout) : N * N := (wo_rcpt o, wo_amt o).

Definition set_fee (t : tx) (fee : N) : tx :=
  mktx (tx_id t) (tx_version t) (tx_signer t) (tx_sig_by t) (tx_sig_msg t) (tx_signer_invalid t) (tx_data t) (tx_nonce t) fee.

Section Build.
Variable cfg : config.

(* the transaction value before checkAndSignTx; the signature is made last, over the final content:
   signed by the wallet key, over this transaction tagged with this network *)
Definition unsigned_tx (st : wstate) (version : N) (d : txdata) : tx :=
  mktx 0 version (w_key st) (w_key st) true (w_key_invalid st) d (wadd (w_nonce st) 1) 0.

(* "for _, v := range StateInputs(tx, addr) { if v.Sender == addr { amt += v.Amount } }" *)
Definition spent_by (t : tx) (addr : N) : N :=
  fold_left (fun s (i : N * N) => if snd i =? addr then wadd s (fst i) else s) (state_inputs cfg t addr) 0.

(* Wallet.checkAndSignTx *)
Definition check_and_sign (st : wstate) (t0 : tx) : res tx :=
  let t := set_fee t0 (wmul (tx_vsize cfg t0) (fee_per_byte_v2 cfg)) in
  if w_bal st <? spent_by t (addr_of_key (w_key st)) then Err 502 else Ok t.

Definition is_self (st : wstate) (o : wout) : bool := wo_rcpt o =? addr_of_key (w_key st).

Definition build (st : wstate) (rq : request) : res tx :=
  match rq with
  | RTransfer outs hv =>
      if existsb (is_self st) outs then Err 501
      else check_and_sign st (unsigned_tx st (if hv then 1 else 0) (TTransfer (map drop_pid (merge_outputs outs))))
  | RRegister nl name id => check_and_sign st (unsigned_tx st 2 (TRegister nl name id))
  | RSetDelegate new prev => check_and_sign st (unsigned_tx st 3 (TSetDelegate new prev))
  | RStake id amt pu => check_and_sign st (unsigned_tx st 4 (TStake amt id pu))
  | RUnstake id amt => check_and_sign st (unsigned_tx st 5 (TUnstake amt id))
  end.

(* payment ids of the outputs of the built transfer (Model/Ledger.v's outputs carry none) *)
Definition built_pids (rq : request) : list N :=
  match rq with RTransfer outs _ => map wo_pid (merge_outputs outs) | _ => [] end.

(* the height regime a request is built for: before hard fork 2 only transfers without version byte,
   between the forks only version-1 transfers, from hard fork 3 on every kind (transfers with version) *)
Definition regime_ok (rq : request) (h : N) : bool :=
  match rq with
  | RTransfer _ hv => if h <? hf_v2 cfg then negb hv else hv
  | _ => hf_v3 cfg <=? h
  end.

Definition request_data (rq : request) : txdata :=
  match rq with
  | RTransfer outs _ => TTransfer (map drop_pid (merge_outputs outs))
  | RRegister nl name id => TRegister nl name id
  | RSetDelegate new prev => TSetDelegate new prev
  | RStake id amt pu => TStake amt id pu
  | RUnstake id amt => TUnstake amt id
  end.
(* the fee the wallet charges, without wrap-around *)
Definition request_fee (rq : request) : N := fee_per_byte_v2 cfg * (base_overhead cfg + data_vsize cfg (request_data rq)).

(* the domain of property C19: an affordable, well-formed request of a wallet with a usable key *)
Definition in_domain (team_key : N) (st : wstate) (rq : request) : bool :=
  negb (w_key st =? 0) && negb (w_key_invalid st) && (w_bal st <? two64) &&
  match rq with
  | RTransfer outs _ =>
      negb (existsb (is_self st) outs) && (1 <=? N.of_nat (length outs)) &&
      (N.of_nat (length (merge_outputs outs)) <=? max_outputs cfg) &&
      (sum_amts outs + request_fee rq <=? w_bal st)
  | RRegister nl _ id =>
      (nl <=? 16) && negb (id =? 0) && (negb (id =? 1) || (w_key st =? team_key)) &&
      (register_burn cfg + request_fee rq <=? w_bal st)
  | RSetDelegate _ _ => request_fee rq <=? w_bal st
  | RStake _ amt _ => (min_stake cfg <=? amt) && (amt + request_fee rq <=? w_bal st)
  | RUnstake _ amt => (request_fee rq <=? amt) && (amt <? two64)
  end.

End Build.

(* ------------------------------------------------------------------ (2) wallet file *)

(* Argon2id as a free constructor: different (password, salt, time, memory) give different keys.
   golang.org/x/crypto/argon2 hashes all four into the first block, so the cost parameters are bound into the key. *)
Inductive kdfkey := Kdf (pw salt time mem : N).
Definition kdfkey_eqb (a b : kdfkey) : bool :=
  match a, b with Kdf p s t m, Kdf p' s' t' m' => (p =? p') && (s =? s') && (t =? t') && (m =? m') end.

(* AES-256-GCM: a byte string is either what Seal produced under some key (nonce ++ sealed payload) or anything else *)
Inductive ctext := Sealed (k : kdfkey) (nonce : N) (payload : N) | Junk.
Definition aead_open (k : kdfkey) (c : ctext) : option N :=
  match c with
  | Sealed k' _ m => if kdfkey_eqb k k' then Some m else None
  | Junk => None
  end.

(* a wallet file: fewer than 24 bytes, or salt(16) time(4, little endian) mem(4, KiB) followed by the ciphertext *)
Inductive wfile := WShort | WFile (salt time mem : N) (c : ctext).

(* bounds checked by decodeDatabase before the KDF runs (wallet/dbread.go: kdfMaxTime, kdfMaxMem, kdfMaxCost) *)
Definition kdf_time_max : N := 4096.
Definition kdf_mem_max : N := 1048576.        (* KiB: 1 GiB *)
Definition kdf_cost_max : N := 67108864.      (* time * mem *)
Definition params_ok (time mem : N) : bool :=
  (1 <=? time) && (time <=? kdf_time_max) && (mem <=? kdf_mem_max) && (time * mem <=? kdf_cost_max).

Section File.
Variable avail_kib : N.   (* memory the process can still allocate, in KiB *)

(* bitcrypto.KDF = argon2.IDKey(pass, salt, time, mem, 1, 32): panics on time = 0;
   allocates mem KiB at once, the Go runtime kills the process when that fails (code 602) *)
Definition kdf (pw salt time mem : N) : res kdfkey :=
  if time =? 0 then Panic 601
  else if avail_kib <? mem then Panic 602
  else Ok (Kdf pw salt time mem).

(* Wallet.decodeDatabase; the payload of an authentic ciphertext is the JSON written by saveDatabase (the key) *)
Definition open_wallet (f : wfile) (pw : N) : res N :=
  match f with
  | WShort => Err 611
  | WFile salt time mem c =>
      _ <- guard (params_ok time mem) 612 ;;
      k <- kdf pw salt time mem ;;
      match aead_open k c with Some key => Ok key | None => Err 613 end
  end.

(* decodeDatabase as it was before the repair of R15 (no guard): kept to state what the defect was *)
Definition open_wallet_unchecked (f : wfile) (pw : N) : res N :=
  match f with
  | WShort => Err 611
  | WFile salt time mem c =>
      k <- kdf pw salt time mem ;;
      match aead_open k c with Some key => Ok key | None => Err 613 end
  end.

(* saveDatabase(dbInfo, pass, time, mem) with the salt and nonce it drew *)
Definition save_wallet (key pw salt time mem nonce : N) : res wfile :=
  k <- kdf pw salt time mem ;;
  Ok (WFile salt time mem (Sealed k nonce key)).

End File.

(* the two parameter sets of CreateWallet / CreateWalletFromMnemonic: (iterations, KiB) *)
Definition kdf_default : N * N := (512, 6 * 1024).
Definition kdf_fast : N * N := (128, 2 * 1024).

(* byte level of the header: little-endian number of a byte list *)
Fixpoint le_num (bs : list N) : N := match bs with [] => 0 | b :: r => b + 256 * le_num r end.
Definition hdr_salt (h : list N) : N := le_num (firstn 16 h).
Definition hdr_time (h : list N) : N := le_num (firstn 4 (skipn 16 h)).
Definition hdr_mem (h : list N) : N := le_num (firstn 4 (skipn 20 h)).
(* [hdr]: the first min(24, length) bytes of the file; [c]: what follows them *)
Definition parse_file (hdr : list N) (file_len : N) (c : ctext) : wfile :=
  if (file_len <? 24) || (N.of_nat (length hdr) <? 24) then WShort
  else WFile (hdr_salt hdr) (hdr_time hdr) (hdr_mem hdr) c.

(* ------------------------------------------------------------------ (3) mnemonic *)
Section Mnemonic.
Variables entropy mnemonic key address : Type.
Variable mnemonic_of : entropy -> mnemonic.          (* bip39.NewMnemonic *)
Variable entropy_of : mnemonic -> option entropy.    (* bip39.EntropyFromMnemonic (checksum, word list) *)
Variable derive : entropy -> key.                    (* slip10.DeriveForPath("m/44'/coin'/0'/0'/0'", entropy).Keypair *)
Variable address_of : key -> address.                (* address.FromPubKey(key.Public()) *)

(* wallet.newMnemonic *)
Definition new_mnemonic (e : entropy) : mnemonic * key := (mnemonic_of e, derive e).
(* wallet.decodeMnemonic *)
Definition decode_mnemonic (m : mnemonic) : res key :=
  match entropy_of m with Some e => Ok (derive e) | None => Err 701 end.

(* CreateWallet on the entropy it drew: (mnemonic, key, address) *)
Definition create_wallet (e : entropy) : mnemonic * key * address :=
  let '(m, k) := new_mnemonic e in (m, k, address_of k).
(* CreateWalletFromMnemonic *)
Definition restore_wallet (m : mnemonic) : res (mnemonic * key * address) :=
  k <- decode_mnemonic m ;; Ok (m, k, address_of k).
End Mnemonic.
