(* Model of block/reward.go and block/coinbase.go.  Executable definitions only. *)
From Virel Require Export Lib.Config Lib.U64.
Open Scope N_scope.

Section Emission.
Variable cfg : config.

(* reduce(n, count): count steps of n*9/10 in uint64 *)
Definition reduce_step (n : N) : N := wmul n 9 / 10.
Definition reduce (n count : N) : N := N.iter count reduce_step n.

(* block.Reward *)
Definition reward (height : N) : N :=
  let reductions := height / reduction_interval cfg in
  if reductions =? 0 then block_reward cfg
  else reduce (block_reward cfg) (reductions - 1).

(* block.supplyAtPhase: loop "for reductions > 0" with wrapping arithmetic *)
Definition supply_phase_step (st : N * N) : N * N :=
  let '(k, s) := st in
  (k - 1, wadd s (wmul (reward (wsub (wmul (reduction_interval cfg) k) 1)) (reduction_interval cfg))).
Definition supply_at_phase (reductions : N) : N :=
  snd (N.iter reductions supply_phase_step (reductions, 0)).

(* block.GetSupplyAtHeight *)
Definition supply_at (height : N) : N :=
  let reductions := height / reduction_interval cfg in
  let reduction_blocks := wadd (height mod reduction_interval cfg) 1 in
  wadd (supply_at_phase reductions) (wmul (reward height) reduction_blocks).

(* Coinbase outputs: (type, amount); types as transaction.StateOutputType *)
Definition OUT_COINBASE_DEV : N := 1.
Definition OUT_COINBASE_POW : N := 2.
Definition OUT_COINBASE_POS : N := 3.
Definition OUT_COINBASE_BURN : N := 4.

Inductive cb_result := CbOuts (outs : list (N * N)) | CbPanic.

(* Block.CoinbaseTransaction(totalReward); [signed] = StakeSignature != BlankSignature *)
Definition coinbase (version : N) (signed : bool) (total : N) : cb_result :=
  if version =? 0 then
    let gov := wmul total (fee_percent cfg) / 100 in
    let pow := wsub total gov in
    CbOuts [(OUT_COINBASE_DEV, gov); (OUT_COINBASE_POW, pow)]
  else if version =? 1 then
    let gov := wmul total (fee_percent cfg) / 100 in
    let pow := total / 2 in
    let pos := wsub (wsub total pow) gov in
    let '(pow, pos, burn) :=
      if signed then (pow, pos, 0)
      else let pow' := wmul pow 3 / 4 in (pow', 0, wsub (wsub total gov) pow') in
    CbOuts ([(OUT_COINBASE_DEV, gov); (OUT_COINBASE_POW, pow)]
            ++ (if pos =? 0 then [] else [(OUT_COINBASE_POS, pos)])
            ++ (if burn =? 0 then [] else [(OUT_COINBASE_BURN, burn)]))
  else CbPanic.

Definition sum_amounts (outs : list (N * N)) : N := fold_right (fun o acc => snd o + acc) 0 outs.

(* Specification-level sum of rewards of blocks 0..h *)
Fixpoint sum_rewards (h : nat) : N :=
  match h with
  | O => reward 0
  | S k => sum_rewards k + reward (N.of_nat (S k))
  end.

End Emission.

(* Linear-time forms used when evaluating cases (the transcriptions above are quadratic in the phase number,
   like the Go code).  Proofs/Emission.v proves them equal to [reward] and [supply_at] for every uint64 height. *)
Section Fast.
Variable cfg : config.
Definition fast_step (st : N * N * N) : N * N * N :=
  let '(p, cur, acc) := st in (p + 1, (if p =? 0 then cur else cur * 9 / 10), acc + cur).
Definition fast_state (q : N) : N * N * N := N.iter q fast_step (0, block_reward cfg, 0).
Definition reward_fast (h : N) : N := snd (fst (fast_state (h / reduction_interval cfg))).
Definition supply_fast (h : N) : N :=
  let '(_, cur, acc) := fast_state (h / reduction_interval cfg) in
  reduction_interval cfg * acc + cur * (h mod reduction_interval cfg + 1).
End Fast.
