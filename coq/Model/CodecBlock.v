(* Transcriptions of Serialize / Deserialize of block/{block,commitment,miningblob}.go, blockchain/bc-block.go
   (SerializeFullBlock), p2p/packet/packdata.go, p2p/handshake.go, p2p/p2p.go (OnAddPeerPacket, frame type).
   Executable definitions only. *)
From Virel Require Export Lib.Config Model.Des Model.Codec.
Open Scope N_scope.
Open Scope bool_scope.

Definition SZ_HID : N := 40.             (* block.HashingID *)
Definition SZ_COMMITMENT : N := 184.     (* block.Commitment (3 ancestors) *)
Definition SZ_TXID : N := 32.
Definition SZ_TX : N := 136.             (* transaction.Transaction *)

Record hashing_id := mkhid { hid_network : N; hid_hash : list N }.

Record commitment := mkcommit {
  cm_base : list N; cm_ancestors : list (list N); cm_timestamp : N; cm_nonce : N; cm_nonce_extra : list N;
  cm_chains : list hashing_id }.

Record header := mkheader {
  hd_version : N; hd_height : N; hd_timestamp : N; hd_nonce : N; hd_nonce_extra : list N;
  hd_chains : list hashing_id; hd_recipient : list N; hd_ancestors : list (list N); hd_side : list commitment;
  hd_delegate : N; hd_next_delegate : N; hd_stake_sig : list N }.

(* Difficulty / CumulativeDiff: Uint128 as one number Lo + 2^64 * Hi *)
Record block := mkblock { bl_header : header; bl_diff : N; bl_cumdiff : N; bl_txs : list (list N) }.

Record mining_blob := mkblob { mb_timestamp : N; mb_nonce : N; mb_nonce_extra : list N; mb_chains : list hashing_id }.

Record pstats := mkpstats { ps_height : N; ps_cumdiff : N; ps_hash : list N }.
Record pblockreq := mkpblockreq { br_height : N; br_hash : list N; br_count : N }.
Record pstakesig := mkpstakesig { ss_delegate : N; ss_hash : list N; ss_signature : list N }.
Record handshake := mkhandshake { hs_version : N; hs_p2p_version : N; hs_peer_id : list N; hs_port : N }.

Definition ID_ENTROPY : list N := [49; 171; 206; 135; 254; 228; 204].   (* 0x31 0xab 0xce 0x87 0xfe 0xe4 0xcc *)

Section CodecBlock.
Variable cfg : config.

Definition read_array (n : N) : M (list N) := x <- read_fixed n ;; to_array n x.

(* ------------------------------------------------------------------ HashingID, Commitment *)
Definition enc_hid (h : hashing_id) : list N := add_u64 (hid_network h) ++ hid_hash h.
Definition dec_hid : M hashing_id := n <- read_u64 ;; h <- read_array 32 ;; ret (mkhid n h).

(* numChains := int(d.ReadUvarint()); if numChains < 0 || numChains > limit { return error } *)
Definition int_count_ok (x limit : N) : bool :=
  negb (int_of_u64 x <? 0)%Z && negb (Z.of_N limit <? int_of_u64 x)%Z.

(* for i := range chains { if d.Error() != nil { return d.Error() }; chains[i] = HashingID{...} } *)
Definition dec_chains (n : N) : M (list hashing_id) :=
  alloc (SZ_HID * n) ;;; rep (N.to_nat n) (check_err ;;; dec_hid).

Definition enc_commitment (c : commitment) : list N :=
  cm_base c ++ concat (cm_ancestors c) ++ put_uvarint (cm_timestamp c) ++ add_u32 (cm_nonce c) ++ cm_nonce_extra c
  ++ put_uvarint (blen (cm_chains c)) ++ concat (map enc_hid (cm_chains c)).

Definition dec_commitment : M commitment :=
  base <- read_array 32 ;;
  anc <- rep (N.to_nat (minidag_ancestors cfg)) (read_array 32) ;;
  ts <- read_uvarint ;;
  nonce <- read_u32 ;;
  ne <- read_array 16 ;;
  nc <- read_uvarint ;;
  if negb (int_count_ok nc (max_mm_chains cfg - 1)) then fail
  else chains <- dec_chains nc ;; ret_err (mkcommit base anc ts nonce ne chains).

(* ------------------------------------------------------------------ BlockHeader *)
Definition enc_header (h : header) : list N :=
  add_u8 (hd_version h) ++ put_uvarint (hd_height h) ++ put_uvarint (hd_timestamp h) ++ add_u32 (hd_nonce h)
  ++ hd_nonce_extra h ++ hd_recipient h ++ concat (hd_ancestors h)
  ++ put_uvarint (blen (hd_chains h)) ++ concat (map enc_hid (hd_chains h))
  ++ put_uvarint (blen (hd_side h)) ++ concat (map enc_commitment (hd_side h))
  ++ (if 0 <? hd_version h
      then put_uvarint (hd_delegate h) ++ put_uvarint (hd_next_delegate h) ++ hd_stake_sig h
      else []).

(* BlockHeader.Deserialize into a zero header; the remaining data stays in the state *)
Definition dec_header : M header :=
  ver <- read_u8 ;;
  height <- read_uvarint ;;
  ts <- read_uvarint ;;
  nonce <- read_u32 ;;
  ne <- read_array 16 ;;
  rcp <- read_array (addr_size cfg) ;;
  anc <- rep (N.to_nat (minidag_ancestors cfg)) (read_array 32) ;;
  check_err ;;;
  nc <- read_uvarint ;;
  if negb (int_count_ok nc (max_mm_chains cfg - 1)) then fail
  else
    chains <- dec_chains nc ;;
    ns <- read_uvarint ;;
    if negb (int_count_ok ns (max_side_blocks cfg)) then fail
    else
      alloc (SZ_COMMITMENT * ns) ;;;
      side <- rep (N.to_nat ns) (check_err ;;; dec_commitment) ;;
      pos <- (if 0 <? ver
              then d <- read_uvarint ;; nd <- read_uvarint ;; sg <- read_array (signature_size cfg) ;; ret (d, nd, sg)
              else ret (0, 0, zeros (signature_size cfg))) ;;
      let '(d, nd, sg) := pos in
      ret_err (mkheader ver height ts nonce ne chains rcp anc side d nd sg).

(* ------------------------------------------------------------------ Block (stored form) *)
(* Block.Serialize returns nil when the difficulty is zero *)
Definition enc_block (b : block) : list N :=
  if bl_diff b =? 0 then []
  else enc_header (bl_header b) ++ add_byte_slice (u128_trimmed (bl_diff b)) ++ add_byte_slice (u128_trimmed (bl_cumdiff b))
       ++ put_uvarint (blen (bl_txs b)) ++ concat (bl_txs b).

(* diff := make([]byte, 16); copy(diff, d.ReadByteSlice()); uint128.FromBytes(diff) *)
Definition read_u128 : M N := sl <- read_byte_slice ;; alloc 16 ;;; ret (u128_of_slice sl).

(* Block.Deserialize: the header's remaining data is handed to a fresh Des (same bytes, no error pending) *)
Definition dec_block : M block :=
  h <- dec_header ;;
  diff <- read_u128 ;;
  cum <- read_u128 ;;
  check_err ;;;
  ntx <- read_uvarint ;;
  check_err ;;;
  if max_tx_per_block cfg <? ntx then fail
  else
    alloc (SZ_TXID * ntx) ;;;
    txs <- rep (N.to_nat ntx) (x <- read_array 32 ;; check_err ;;; ret x) ;;
    ret_err (mkblock h diff cum txs).

(* ------------------------------------------------------------------ Block (wire form, with full transactions) *)
(* SerializeFullBlock; txs are the stored transactions of b.Transactions in order *)
Definition enc_full_block (b : block) (txs : list tx) : list N :=
  enc_header (bl_header b) ++ add_byte_slice (u128_trimmed (bl_diff b)) ++ add_byte_slice (u128_trimmed (bl_cumdiff b))
  ++ put_uvarint (blen txs) ++ concat (map (fun t => add_byte_slice (enc_tx t)) txs).

(* Block.DeserializeFull.  The transaction ids (BLAKE3 of the re-encoding of each transaction) are not part of the
   model: the decoded block carries an empty id list, the transactions are returned next to it. *)
Definition dec_full_block : M (block * list tx) :=
  h <- dec_header ;;
  diff <- read_u128 ;;
  cum <- read_u128 ;;
  ntx <- read_uvarint ;;
  check_err ;;;
  if max_tx_per_block cfg <? ntx then fail
  else
    alloc ((SZ_PTR + SZ_TXID) * ntx) ;;;
    txs <- rep (N.to_nat ntx)
             (sl <- read_byte_slice ;;
              t <- sub_des sl (dec_tx cfg (hf_v2 cfg <=? hd_height h)) ;;
              alloc (SZ_TX + 2 * blen sl + 256) ;;;                 (* the Transaction, its payload, tx.Hash() re-serialises *)
              ret t) ;;
    ret_err (mkblock h diff cum [], txs).

(* ------------------------------------------------------------------ MiningBlob *)
Definition enc_blob (m : mining_blob) : list N :=
  add_u64 (mb_timestamp m) ++ mb_nonce_extra m ++ add_u64 (blen (mb_chains m)) ++ ID_ENTROPY ++ add_u32 (mb_nonce m)
  ++ concat (map enc_hid (mb_chains m)).

Definition dec_blob : M mining_blob :=
  ts <- read_u64 ;;
  ne <- read_array 16 ;;
  nc <- read_u64 ;;
  ent <- read_array 7 ;;
  check_err ;;;
  if (nc =? 0) || (max_mm_chains cfg <? nc) then fail
  else if negb (bytes_eq ent ID_ENTROPY) then fail
  else
    nonce <- read_u32 ;;
    (* for i := 0; i < int(numChains); i++ { m.Chains = append(m.Chains, HashingID{...}) } *)
    alloc (2 * SZ_HID * nc) ;;;
    chains <- rep (N.to_nat nc) dec_hid ;;
    check_err ;;;
    rem <- remaining ;;
    if negb (lenltb rem 1) then fail else ret (mkblob ts nonce ne chains).

(* ------------------------------------------------------------------ packets *)
Definition enc_pstats (p : pstats) : list N :=
  put_uvarint (ps_height p) ++ add_byte_slice (u128_trimmed (ps_cumdiff p)) ++ ps_hash p.
Definition dec_pstats : M pstats :=
  h <- read_uvarint ;; d <- read_u128 ;; hash <- read_array 32 ;; ret_err (mkpstats h d hash).

Definition enc_pblockreq (p : pblockreq) : list N :=
  put_uvarint (br_height p) ++ (if br_height p =? 0 then br_hash p else add_u8 (br_count p)).
Definition dec_pblockreq : M pblockreq :=
  h <- read_uvarint ;;
  if h =? 0 then hash <- read_array 32 ;; ret_err (mkpblockreq h hash 0)
  else c <- read_u8 ;; ret_err (mkpblockreq h (zeros 32) c).

Definition enc_pstakesig (p : pstakesig) : list N :=
  put_uvarint (ss_delegate p) ++ ss_hash p ++ ss_signature p.
Definition dec_pstakesig : M pstakesig :=
  d <- read_uvarint ;; h <- read_array 32 ;; s <- read_array (signature_size cfg) ;; ret_err (mkpstakesig d h s).

Definition enc_handshake (h : handshake) : list N :=
  add_u64 (hs_version h) ++ add_u8 (hs_p2p_version h) ++ hs_peer_id h ++ add_u16 (hs_port h).
Definition dec_handshake : M handshake :=
  v <- read_u64 ;; pv <- read_u8 ;; id <- read_array 32 ;; port <- read_u16 ;;
  check_err ;;;
  rem <- remaining ;;
  if negb (lenltb rem 1) then fail else ret (mkhandshake v pv id port).

(* handleConnection: packetType = des.ReadUint16(); error => drop the connection *)
Definition dec_frame_type : M N := t <- read_u16 ;; ret_err t.

(* OnAddPeerPacket.  [parse_ip] stands for net.ParseIP(s) != nil (Go library, outside the model).
   packetData is only used as a loop counter: it loses two bytes per entry. *)
Section AddPeer.
Variable parse_ip : list N -> bool.
Fixpoint add_peer_loop (fuel : nat) (counter : N) : M (list (N * list N)) :=
  match fuel with
  | O => ret []
  | S k =>
      if negb (3 <? counter) then ret []                       (* for len(packetData) > 3 *)
      else
        port <- read_u16 ;;
        if port =? 0 then fail
        else
          ip <- read_string ;;                                    (* packetData = packetData[2:] is in range: len > 3 *)
          if negb (parse_ip ip) then fail
          else check_err ;;; l <- add_peer_loop k (counter - 2) ;; ret ((port, ip) :: l)
  end.
Definition dec_add_peer : M (list (N * list N)) :=
  data <- remaining ;;
  if lenltb data 3 then fail
  else add_peer_loop (length data) (blen data).
End AddPeer.

(* stratum "submit" line (blockchain/bc-stratum.go handleConn): nonceBin = hex.DecodeString(params.Nonce);
   nonce := binary.LittleEndian.Uint32(nonceBin) indexes nonceBin[3].  [fixed] = false: the code as found,
   [fixed] = true: after the repair (a nonce shorter than 4 bytes is answered with "malformed job"). *)
Definition stratum_nonce_gen (fixed : bool) : M N :=
  nb <- remaining ;;
  if lenltb nb 4 then (if fixed then fail else panic)
  else ret (le_value (firstn 4 nb)).
(* the tree under test: follows /repo (see KNOWN_FINDINGS.json, R5) *)
Definition stratum_nonce : M N := stratum_nonce_gen true.

End CodecBlock.

(* Well-formedness of values: domain of the round-trip theorems and of the round-trip clause of C13. *)
Section WfBlock.
Variable cfg : config.

Definition two32 : N := 4294967296.
Definition hashes_ok (l : list (list N)) : bool := forallb (fun h => lenb h 32) l.

Definition wf_hid (h : hashing_id) : bool := u64b (hid_network h) && lenb (hid_hash h) 32.

Definition wf_commitment (c : commitment) : bool :=
  lenb (cm_base c) 32 && lenb (cm_ancestors c) (minidag_ancestors cfg) && hashes_ok (cm_ancestors c)
  && u64b (cm_timestamp c) && (cm_nonce c <? two32) && lenb (cm_nonce_extra c) 16
  && (blen (cm_chains c) <=? max_mm_chains cfg - 1) && forallb wf_hid (cm_chains c).

(* version 0 headers have no proof-of-stake fields: they are zero in the Go struct *)
Definition wf_header (h : header) : bool :=
  (hd_version h <? 256) && u64b (hd_height h) && u64b (hd_timestamp h) && (hd_nonce h <? two32)
  && lenb (hd_nonce_extra h) 16 && (blen (hd_chains h) <=? max_mm_chains cfg - 1) && forallb wf_hid (hd_chains h)
  && lenb (hd_recipient h) (addr_size cfg)
  && lenb (hd_ancestors h) (minidag_ancestors cfg) && hashes_ok (hd_ancestors h)
  && (blen (hd_side h) <=? max_side_blocks cfg) && forallb wf_commitment (hd_side h)
  && (if 0 <? hd_version h
      then u64b (hd_delegate h) && u64b (hd_next_delegate h) && lenb (hd_stake_sig h) (signature_size cfg)
      else (hd_delegate h =? 0) && (hd_next_delegate h =? 0) && bytes_eq (hd_stake_sig h) (zeros (signature_size cfg))).

Definition wf_block (b : block) : bool :=
  wf_header (bl_header b) && negb (bl_diff b =? 0) && (bl_diff b <? two128) && (bl_cumdiff b <? two128)
  && (blen (bl_txs b) <=? max_tx_per_block cfg) && hashes_ok (bl_txs b).

(* wire form: the block (its id list is not transmitted) and its transactions; the version byte of the
   transactions is present from HARDFORK_V2_HEIGHT on *)
Definition wf_full_block (b : block) (txs : list tx) : bool :=
  wf_header (bl_header b) && (bl_diff b <? two128) && (bl_cumdiff b <? two128)
  && (blen txs <=? max_tx_per_block cfg)
  && forallb (fun t => wf_tx cfg (hf_v2 cfg <=? hd_height (bl_header b)) t && u64b (blen (enc_tx t))) txs.

Definition wf_blob (m : mining_blob) : bool :=
  u64b (mb_timestamp m) && (mb_nonce m <? two32) && lenb (mb_nonce_extra m) 16
  && (1 <=? blen (mb_chains m)) && (blen (mb_chains m) <=? max_mm_chains cfg) && forallb wf_hid (mb_chains m).

Definition wf_pstats (p : pstats) : bool := u64b (ps_height p) && (ps_cumdiff p <? two128) && lenb (ps_hash p) 32.

(* the unused one of Hash / Count is not transmitted: it is zero in the decoded struct *)
Definition wf_pblockreq (p : pblockreq) : bool :=
  u64b (br_height p)
  && (if br_height p =? 0 then lenb (br_hash p) 32 && (br_count p =? 0)
      else bytes_eq (br_hash p) (zeros 32) && (br_count p <? 256)).

Definition wf_pstakesig (p : pstakesig) : bool :=
  u64b (ss_delegate p) && lenb (ss_hash p) 32 && lenb (ss_signature p) (signature_size cfg).

Definition wf_handshake (h : handshake) : bool :=
  u64b (hs_version h) && (hs_p2p_version h <? 256) && lenb (hs_peer_id h) 32 && (hs_port h <? 65536).

Definition cfg_ok_block : bool :=
  cfg_ok_codec cfg && (minidag_ancestors cfg <? 256) && (1 <=? max_mm_chains cfg) && (max_mm_chains cfg <? 9223372036854775808)
  && (max_side_blocks cfg <? 9223372036854775808) && (max_tx_per_block cfg <? two64).
End WfBlock.
