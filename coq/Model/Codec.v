(* Transcriptions of Serialize / Deserialize of transaction/{transaction,tx_data,inout}.go,
   chaintype/{state,delegate}.go.  Executable definitions only.
   32-byte hashes / keys, 64-byte signatures and 22-byte addresses are byte lists of that length. *)
From Virel Require Export Lib.Config Model.Des.
Open Scope N_scope.

(* sizes of the Go objects counted by the allocation counter (unsafe.Sizeof on amd64) *)
Definition SZ_OUTPUT : N := 40.          (* transaction.Output: [22]byte + 2 x uint64, aligned *)
Definition SZ_FUND : N := 40.            (* chaintype.DelegatedFund *)
Definition SZ_PTR : N := 8.

(* ------------------------------------------------------------------ transaction.Output *)
Record output := mkoutput { o_recipient : list N; o_payment_id : N; o_amount : N }.

Inductive txdata :=
| Transfer (outs : list output)
| RegisterDelegate (name : list N) (id : N)
| SetDelegate (delegate_id previous : N)
| Stake (amount delegate_id prev_unlock : N)
| Unstake (amount delegate_id : N).

Record tx := mktx { tx_version : N; tx_signer : list N; tx_signature : list N; tx_data : txdata; tx_nonce : N; tx_fee : N }.

Record state := mkstate { st_balance : N; st_last_nonce : N; st_last_incoming : N; st_delegate_id : N }.
Record fund := mkfund { f_owner : list N; f_amount : N; f_unlock : N }.
Record delegate := mkdelegate { dg_id : N; dg_owner : list N; dg_name : list N; dg_funds : list fund }.

Section Codec.
Variable cfg : config.

Definition enc_output (o : output) : list N :=
  o_recipient o ++ put_uvarint (o_payment_id o) ++ put_uvarint (o_amount o).

Definition dec_output : M output :=
  r0 <- read_fixed (addr_size cfg) ;; r <- to_array (addr_size cfg) r0 ;;
  p <- read_uvarint ;;
  a <- read_uvarint ;;
  ret_err (mkoutput r p a).

(* TransactionData.AssociatedTransactionVersion *)
Definition data_version (d : txdata) : N :=
  match d with
  | Transfer _ => 1 | RegisterDelegate _ _ => 2 | SetDelegate _ _ => 3 | Stake _ _ _ => 4 | Unstake _ _ => 5
  end.

Definition enc_txdata (d : txdata) : list N :=
  match d with
  | Transfer outs => put_uvarint (blen outs) ++ concat (map enc_output outs)
  | RegisterDelegate name id => add_byte_slice name ++ put_uvarint id
  | SetDelegate d p => put_uvarint d ++ put_uvarint p
  | Stake a d p => put_uvarint a ++ put_uvarint d ++ put_uvarint p
  | Unstake a d => put_uvarint a ++ put_uvarint d
  end.

Definition dec_transfer : M txdata :=
  n <- read_uvarint ;;
  if (max_outputs cfg <? n) || (n =? 0) then fail
  else alloc (SZ_OUTPUT * n) ;;;                                  (* make([]Output, numOutputs) *)
       outs <- rep (N.to_nat n) dec_output ;;
       ret_err (Transfer outs).

Definition dec_register : M txdata :=
  name <- read_byte_slice ;; id <- read_uvarint ;; ret_err (RegisterDelegate name id).
Definition dec_set_delegate : M txdata :=
  d <- read_uvarint ;; p <- read_uvarint ;; ret_err (SetDelegate d p).
Definition dec_stake : M txdata :=
  a <- read_uvarint ;; d <- read_uvarint ;; p <- read_uvarint ;; ret_err (Stake a d p).
Definition dec_unstake : M txdata :=
  a <- read_uvarint ;; d <- read_uvarint ;; ret_err (Unstake a d).

(* Transaction.Serialize *)
Definition enc_tx (t : tx) : list N :=
  (if tx_version t =? 0 then [] else add_u8 (data_version (tx_data t)))
  ++ tx_signer t ++ tx_signature t ++ enc_txdata (tx_data t)
  ++ put_uvarint (tx_nonce t) ++ put_uvarint (tx_fee t).

(* Transaction.Deserialize(data, hasVersion) *)
Definition dec_tx (has_version : bool) : M tx :=
  ver <- (if has_version
          then v <- read_u8 ;; if (max_tx_version cfg <? v) || (v =? 0) then fail else ret v
          else ret 0) ;;
  sg0 <- read_fixed (pubkey_size cfg) ;; sg <- to_array (pubkey_size cfg) sg0 ;;
  si0 <- read_fixed (signature_size cfg) ;; si <- to_array (signature_size cfg) si0 ;;
  data <- (if (ver =? 0) || (ver =? 1) then dec_transfer
           else if ver =? 2 then dec_register
           else if ver =? 3 then dec_set_delegate
           else if ver =? 4 then dec_stake
           else if ver =? 5 then dec_unstake
           else fail) ;;
  nonce <- read_uvarint ;;
  fee <- read_uvarint ;;
  ret_err (mktx ver sg si data nonce fee).

(* chaintype.State *)
Definition enc_state (x : state) : list N :=
  put_uvarint (st_balance x) ++ put_uvarint (st_last_nonce x) ++ put_uvarint (st_last_incoming x)
  ++ add_u8 1 ++ put_uvarint (st_delegate_id x).

(* State.Deserialize into a zero State (DelegateId keeps the receiver's value when the version byte is absent) *)
Definition dec_state : M state :=
  b <- read_uvarint ;;
  n <- read_uvarint ;;
  li <- read_uvarint ;;
  rem <- remaining ;;
  if negb (lenltb rem 1) then                     (* len(s.RemainingData()) > 0 *)
    v <- read_u8 ;;
    if negb (v =? 1) then fail
    else did <- read_uvarint ;; ret (mkstate b n li did)     (* return nil: the sticky error is not consulted *)
  else ret_err (mkstate b n li 0).

(* chaintype.Delegate *)
Definition enc_fund (f : fund) : list N := f_owner f ++ put_uvarint (f_amount f) ++ put_uvarint (f_unlock f).
Definition enc_delegate (g : delegate) : list N :=
  add_u8 0 ++ put_uvarint (dg_id g) ++ dg_owner g ++ add_byte_slice (dg_name g)
  ++ put_uvarint (blen (dg_funds g)) ++ concat (map enc_fund (dg_funds g)).

Definition dec_fund : M fund :=
  alloc SZ_FUND ;;;                                             (* &DelegatedFund{...} *)
  o0 <- read_fixed (addr_size cfg) ;; o <- to_array (addr_size cfg) o0 ;;
  a <- read_uvarint ;;
  u <- read_uvarint ;;
  ret (mkfund o a u).

Definition dec_delegate : M delegate :=
  v <- read_u8 ;;
  if negb (v =? 0) then fail
  else
    id <- read_uvarint ;;
    ow0 <- read_fixed (pubkey_size cfg) ;; ow <- to_array (pubkey_size cfg) ow0 ;;
    name <- read_byte_slice ;;
    nf <- read_uvarint ;;
    rem <- remaining ;;
    if blen rem / 20 <? nf then fail                            (* numFunds > uint64(len(d.RemainingData())/20) *)
    else alloc (SZ_PTR * nf) ;;;                                (* make([]*DelegatedFund, numFunds) *)
         funds <- rep (N.to_nat nf) dec_fund ;;
         ret_err (mkdelegate id ow name funds).

End Codec.

(* Well-formedness of values (field ranges of the Go types, list lengths within the decoders' limits):
   the domain of the round-trip theorems and of the round-trip clause of the C13 predicate. *)
Section Wf.
Variable cfg : config.

Definition u64b (x : N) : bool := x <? two64.
Definition lenb {A} (l : list A) (n : N) : bool := blen l =? n.

Definition wf_output (o : output) : bool :=
  lenb (o_recipient o) (addr_size cfg) && u64b (o_payment_id o) && u64b (o_amount o).

Definition wf_txdata (d : txdata) : bool :=
  match d with
  | Transfer outs => (1 <=? blen outs) && (blen outs <=? max_outputs cfg) && forallb wf_output outs
  | RegisterDelegate name id => u64b (blen name) && u64b id
  | SetDelegate d p => u64b d && u64b p
  | Stake a d p => u64b a && u64b d && u64b p
  | Unstake a d => u64b a && u64b d
  end.

(* has_version = true: the version is the one of the payload (Serialize writes the payload's version);
   has_version = false: version 0, which only exists for transfers *)
Definition wf_tx (has_version : bool) (t : tx) : bool :=
  (if has_version then tx_version t =? data_version (tx_data t)
   else (tx_version t =? 0) && match tx_data t with Transfer _ => true | _ => false end)
  && lenb (tx_signer t) (pubkey_size cfg) && lenb (tx_signature t) (signature_size cfg)
  && wf_txdata (tx_data t) && u64b (tx_nonce t) && u64b (tx_fee t).

Definition wf_state (x : state) : bool :=
  u64b (st_balance x) && u64b (st_last_nonce x) && u64b (st_last_incoming x) && u64b (st_delegate_id x).

Definition wf_fund (f : fund) : bool :=
  lenb (f_owner f) (addr_size cfg) && u64b (f_amount f) && u64b (f_unlock f).

Definition wf_delegate (g : delegate) : bool :=
  u64b (dg_id g) && lenb (dg_owner g) (pubkey_size cfg) && u64b (blen (dg_name g))
  && u64b (blen (dg_funds g)) && forallb wf_fund (dg_funds g).

(* the constants the codec theorems depend on *)
Definition cfg_ok_codec : bool :=
  (max_tx_version cfg =? 5) && (addr_size cfg =? 22) && (pubkey_size cfg =? 32) && (signature_size cfg =? 64)
  && (max_outputs cfg <? two64).
End Wf.
