(* The verdict on a share on the MASTERCHAIN (blockchain/mining.go blockFound + mergestratum.go submitMergeMinedBlock +
   the end of "submit" in bc-stratum.go handleConn), as far as the answer to the miner depends on it.

   What the miner was given: a job whose target is that of [mindiff], the easiest difficulty among this chain's and the
   merge-mined chains' at the time the template was made (MinerJob.MinDiff since the repair of
   C15-masterchain-stale-merge-difficulty).  What the node consults when the share arrives: the difficulty of the job's own
   block [own] and, for every merge-mined chain it is connected to NOW, the difficulty that chain advertised with its LATEST
   job (mergestratum.Difficulty; 0 = no job yet) - [now].  The chains' answers to the forwarded solution only fill the list
   of found blocks; they do not change the verdict (numFounds counts the forwards, not the answers).

   matchesDiff(pow, d) and block.ValidPowHash(pow, d) are both val <= (2^128-1) / d; d = 0 never occurs for [own] and
   [mindiff] (C08: difficulties are >= 1); a chain with difficulty 0 is skipped by the code. *)
From Virel Require Import Lib.CheckLib.
Open Scope N_scope.
Open Scope bool_scope.

Definition max128 : N := 2 ^ 128 - 1.
Definition mm_meets (pow d : N) : bool := negb (d =? 0) && (pow <=? max128 / d).

Inductive verdict := VFoundOwn | VMerged | VShareOnly | VLowDiff.

(* the code before the repair: no chain asks for so little NOW => "does not match minimum difficulty requirements" *)
Definition mm_judge_old (own : N) (now : list N) (pow : N) : verdict :=
  if mm_meets pow own then VFoundOwn
  else if existsb (mm_meets pow) now then VMerged
  else VLowDiff.

(* the repaired code: a share that mm_meets the difficulty its job's target was computed from is answered OK *)
Definition mm_judge (own mindiff : N) (now : list N) (pow : N) : verdict :=
  if mm_meets pow own then VFoundOwn
  else if existsb (mm_meets pow) now then VMerged
  else if mm_meets pow mindiff then VShareOnly
  else VLowDiff.

Definition mm_answered_ok (v : verdict) : bool := match v with VLowDiff => false | _ => true end.
