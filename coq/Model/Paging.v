(* Model of the page arithmetic of the get_tx_list RPC handler (cmd/virel-node/noderpc.go): for a history of
   [n] entries (the account's LastIncoming / LastNonce) and a requested page, the ids served are endNum+1 .. startNum.
   uint64 arithmetic and the int64 cast are explicit.  Executable definitions only. *)
From Virel Require Import Lib.U64.
Open Scope N_scope.

Definition page_size : N := 25.

Definition int64_of (x : N) : Z :=
  let x' := x mod two64 in if x' <? 9223372036854775808 then Z.of_N x' else (Z.of_N x' - 18446744073709551616)%Z.

(* returns (first id, last id, maxPage): ids first..last inclusive are served, empty when first > last *)
Definition page_range (n page : N) : N * N * N :=
  let max_page := if 0 <? n then (n - 1) / page_size else 0 in
  let p := if max_page <? page then max_page else page in
  let start := wsub n (wmul p page_size) in
  let e := Z.to_N (Z.max (int64_of start - Z.of_N page_size) 0) in
  (e + 1, start, max_page).
