(* CRC-32 (IEEE 802.3, reflected, polynomial 0xEDB88320, initial value and final xor 0xFFFFFFFF):
   hash/crc32.ChecksumIEEE, bit by bit.  Executable definitions only. *)
From Coq Require Export NArith List.
Open Scope N_scope.

Definition crc_poly : N := 3988292384.   (* 0xEDB88320 *)
Definition crc_mask : N := 4294967295.   (* 0xFFFFFFFF *)

Definition crc_bit (c : N) : N :=
  if N.odd c then N.lxor (N.shiftr c 1) crc_poly else N.shiftr c 1.

Definition crc_byte (c byte : N) : N := N.iter 8 crc_bit (N.lxor c byte).

Definition crc32_update (c : N) (bs : list N) : N := fold_left crc_byte bs c.

Definition crc32 (bs : list N) : N := N.lxor (crc32_update crc_mask bs) crc_mask.
