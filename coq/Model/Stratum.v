(* Model of the stratum server: stratum/stratumsrv/server.go (Server, Conn, SendJob, job history) and
   blockchain/bc-stratum.go (handleConn: login, submit), at the granularity of the code's critical sections.

   The Go code works with pointers to block.Block values; the model keeps a heap  ptr -> block  and says, for every
   write, through which pointer it goes.  Executable definitions only.

   History: up to commit f0322df of /repo login and SendJob wrote the recipient and the extra nonce through the
   template's pointer, which every job shared (finding R6, reproduced by the check on the real server: the literal
   model of that code is commit badc84f of this framework); since f0322df every job owns a copy.  Up to e23ae62 a
   nonce of fewer than four bytes made the handler goroutine panic (finding R5).

   Symbolic parts (DESIGN 8): the own-chain hashing id of a block (BLAKE3 of the base hash and the ancestors) depends,
   among the fields a job can differ in, only on the template the block was copied from and on the recipient; it is
   the constructor [Own tpl rcp] (collision freedom of the hash = injectivity of the constructor).  Extra nonces, job
   ids, foreign chains' hashes are opaque numbers.  The proof-of-work hash is an uninterpreted function [pow] of the
   seed it is keyed with and of the blob (randomvirel.PowHash(seed, blob.Serialize()), read as the 128-bit number the
   node compares with the difficulty); WHICH seed the code passes and WHICH difficulty it compares with are part of
   the model: the seed is a number (block.GetSeedhashId of a timestamp), the comparison is the word-level
   ValidPowValue of Model/Difficulty.v.  The target sent with a job is util.GetTarget of Model/Difficulty.v applied
   to the difficulty the code passes at that place.
   Random draws of the server (job id, extra nonce) are inputs carried by the events. *)
From Coq Require Import NArith List Bool.
From Virel Require Import Lib.Config Lib.AMap Model.Difficulty.
Import ListNotations.
Open Scope N_scope.
Open Scope bool_scope.

(* util.GetTargetBytes(diff) as the number in the eight bytes (None = integer division by zero panics) and
   Block.ValidPowHash / block.ValidPowHash (None = uint128 division by zero panics) *)
Definition job_target (d : N) : option N := match get_target d with Ok t => Some t | Panic => None end.
Definition pow_valid (val d : N) : option bool := match valid_pow_value val d with Ok b => Some b | Panic => None end.

(* block.GetSeedhashId(time) = time / (config.SEEDHASH_DURATION * 1000); MiningBlob.GetSeed hashes this number *)
Definition seed_id (cfg : config) (ts : N) : N := ts / (seedhash_duration cfg * 1000).

(* ---- blocks and mining blobs (block/commitment.go, block/miningblob.go, block/block.go) ---- *)

Inductive hidv := Own (tpl rcp : N) | Foreign (h : N).
Definition chain := (N * hidv)%type.                      (* block.HashingID: network id, hash *)

Definition hidv_eqb (a b : hidv) : bool :=
  match a, b with
  | Own t r, Own t' r' => (t =? t') && (r =? r')
  | Foreign h, Foreign h' => h =? h'
  | _, _ => false
  end.
Definition chain_eqb (a b : chain) : bool := (fst a =? fst b) && hidv_eqb (snd a) (snd b).

Fixpoint chains_eqb (a b : list chain) : bool :=
  match a, b with
  | [], [] => true
  | x :: a', y :: b' => chain_eqb x y && chains_eqb a' b'
  | _, _ => false
  end.

(* block.MiningBlob: what a miner hashes *)
Record blob := mkblob { mb_ts : N; mb_extra : N; mb_nonce : N; mb_chains : list chain }.

Definition blob_eqb (a b : blob) : bool :=
  (mb_ts a =? mb_ts b) && (mb_extra a =? mb_extra b) && (mb_nonce a =? mb_nonce b) && chains_eqb (mb_chains a) (mb_chains b).

Definition blob_seed (cfg : config) (m : blob) : N := seed_id cfg (mb_ts m).     (* m.GetSeed() *)

(* the fields of block.Block that the stratum code reads or writes; everything else (height, ancestors, transactions,
   side blocks, stake data) is fixed by the template and summarised by b_tpl, the class of templates with that content
   (two templates of one height that differ only in timestamp and extra nonce have the same base hash).  b_diff is
   Block.Difficulty: no stratum code writes it, blockFound judges the proof of work against it. *)
Record blk := mkblk { b_tpl : N; b_rcp : N; b_ts : N; b_extra : N; b_nonce : N; b_chains : list chain; b_diff : N }.

Definition IS_MASTERCHAIN_ID : N := 15244028455943590085.    (* config/advanced.go: 0xd38dab1d4676d0c5 *)
Definition is_masterchain (cfg : config) : bool := network_id cfg =? IS_MASTERCHAIN_ID.

(* slices.SortFunc in Commitment.MiningBlob: ascending network id, panic on two equal ids (None) *)
Fixpoint insert_chain (x : chain) (l : list chain) : option (list chain) :=
  match l with
  | [] => Some [x]
  | y :: r => if fst x <? fst y then Some (x :: y :: r)
              else if fst y <? fst x then option_map (cons y) (insert_chain x r)
              else None
  end.
Fixpoint sort_chains (l : list chain) : option (list chain) :=
  match l with
  | [] => Some []
  | x :: r => match sort_chains r with Some s => insert_chain x s | None => None end
  end.

(* b.Commitment().MiningBlob(); None = the sort panics *)
Definition blob_of (cfg : config) (b : blk) : option blob :=
  match sort_chains (b_chains b ++ [(network_id cfg, Own (b_tpl b) (b_rcp b))]) with
  | Some ch => Some (mkblob (b_ts b) (b_extra b) (b_nonce b) ch)
  | None => None
  end.

(* Block.setMiningBlob: the whole list (this network's entry included) must be strictly ascending by network id;
   the other chains are collected in order (no repeated hash or network id); this network must occur exactly once *)
Fixpoint smb_loop (nid : N) (l : list chain) (first : bool) (last : N) (contains : bool) (acc : list chain)
  : option (list chain) :=
  match l with
  | [] => if contains then Some acc else None
  | v :: r =>
      if negb first && (fst v <=? last) then None
      else if negb (fst v =? nid) then
             if existsb (fun oc : chain => hidv_eqb (snd oc) (snd v) || (fst oc =? fst v)) acc then None
             else smb_loop nid r false (fst v) contains (acc ++ [v])
           else if contains then None else smb_loop nid r false (fst v) true acc
  end.
Definition set_mining_blob (cfg : config) (b : blk) (m : blob) : option blk :=
  match smb_loop (network_id cfg) (mb_chains m) true 0 false [] with
  | Some oc => Some (mkblk (b_tpl b) (b_rcp b) (mb_ts m) (mb_extra m) (mb_nonce m) oc (b_diff b))
  | None => None
  end.

(* the entry of this chain in a blob, and "the blob describes a block paying addr" *)
Definition own_entry (cfg : config) (b : blob) : option hidv :=
  match find (fun c : chain => fst c =? network_id cfg) (mb_chains b) with Some c => Some (snd c) | None => None end.
Definition pays (cfg : config) (b : blob) (addr : N) : bool :=
  match own_entry cfg b with Some (Own _ r) => r =? addr | _ => false end.

(* ---- server state ---- *)

(* MinerJob: JobID, Block (pointer), Seed (of the blob at the time the job was made); and what was sent with the job:
   the blob and the target (the number in the eight target bytes) *)
Record job := mkjob { j_id : N; j_ptr : N; j_seed : N; j_sent : blob; j_target : N }.
Record conn := mkconn { c_addr : N; c_jobs : list job }.        (* ConnData: Address, Jobs *)

Record server := mkserver {
  s_last : option (N * N);      (* Server.LastBlock (nil = None) and Server.LastMinDiff, written together under the server's lock *)
  s_tpls : list (N * (N * N));  (* k-th call of SendJob -> what its goroutines captured: the pointer bl and the argument diff *)
  s_conns : list (N * conn);    (* Server.conns, logged-in connections *)
  s_heap : list (N * blk);      (* pointer -> block *)
  s_next : N                    (* next unused pointer *)
}.

Definition init_server : server := mkserver None [] [] [] 1.

(* a value meets a target in the reading of the code itself (mergestratum.go: util.ByteTargetToDiff of the eight
   target bytes, then the uint128 comparison): val <= (2^128-1) / ((2^64-1) / target), a zero target standing for
   difficulty 1 *)
Definition target_diff (t : N) : N := if t =? 0 then 1 else max_u64 / t.
Definition meets_target (val t : N) : bool := val <=? (two128 - 1) / target_diff t.

Inductive nonce_in := NBadHex | NBytes (len val : N).       (* hex text of the nonce: undecodable | bytes, LE32 of the first four *)
Inductive extra_in := XNone | XBytes (len val : N).         (* nonce_extra: absent | bytes (val meaningful when len = 16) *)
Inductive mblob_in := MNone | MBad | MBlob (m : blob).      (* merge-mining blob: absent | undecodable | decoded *)

(* the blob the miner hashed: the blob it was sent, with its nonce and, when it supplies a 16-byte one, its extra nonce *)
Definition miner_blob (sent : blob) (nonce : N) (x : extra_in) : blob :=
  mkblob (mb_ts sent) (match x with XBytes len v => if len =? 16 then v else mb_extra sent | XNone => mb_extra sent end)
         nonce (mb_chains sent).

Inductive event :=
| ELogin (cid addr jobid : N)                 (* addr 0 = not an address; jobid = the id the server draws *)
| ETemplate (tpl ts extra : N) (chains : list chain) (diff mindiff : N)
    (* NewStratumJob: GetBlockTemplate (content class tpl, Block.Difficulty diff, minimum difficulty mindiff) + the
       prologue of SendJob(bl, mindiff) *)
| ENotify (cid k extra jobid : N)             (* the critical section of the goroutine SendJob number k started for cid *)
| ESubmit (cid jobid : N) (nonce : nonce_in) (extra : extra_in) (mb : mblob_in)
| EDisconnect (cid : N).

Inductive outcome :=
| ONone                        (* nothing is sent *)
| OJob (jobid : N) (sent : blob) (target : N)
| OLoginRefused                (* error reply, connection dropped *)
| OUnknownJob                  (* "stale job" *)
| OMalformed                   (* error reply, connection dropped *)
| OBlobRefused                 (* merge-mining blob refused, connection dropped *)
| ORejectedLowDiff             (* the recomputed blob fails proof of work *)
| OFound (rcp : N) (judged : blob)   (* proof of work accepted: block paying rcp handed to the chain *)
| OPanic.                      (* the goroutine dies; in the node nothing recovers it *)

Section Step.
Variable cfg : config.
Variable pow : N -> blob -> N.      (* seed id, blob -> the 128-bit proof-of-work value *)

Definition hist : nat := N.to_nat (stratum_jobs_history cfg).

(* if len(c.Jobs) >= STRATUM_JOBS_HISTORY { c.Jobs = c.Jobs[1:] }; c.Jobs = append(c.Jobs, j) *)
Definition push_job (jobs : list job) (j : job) : list job :=
  (if Nat.leb hist (length jobs) then tl jobs else jobs) ++ [j].

Fixpoint find_job (jobs : list job) (jid : N) : option job :=
  match jobs with
  | [] => None
  | j :: r => if j_id j =? jid then Some j else find_job r jid
  end.

Definition set_conns (s : server) (c : list (N * conn)) : server := mkserver (s_last s) (s_tpls s) c (s_heap s) (s_next s).
Definition set_heap (s : server) (h : list (N * blk)) : server := mkserver (s_last s) (s_tpls s) (s_conns s) h (s_next s).
Definition kick (s : server) (cid : N) : server := set_conns s (ndel (s_conns s) cid).

Definition alloc (s : server) (b : blk) : server :=
  mkserver (s_last s) (s_tpls s) (s_conns s) (nset (s_heap s) (s_next s) b) (s_next s + 1).

(* login in handleConn: jobBl := *bc.Stratum.LastBlock (a copy at a fresh address) and lastMinDiff := LastMinDiff under
   one read lock; jobBl.Recipient = addr; the job keeps the pointer to the copy; the target is that of lastMinDiff. *)
Definition do_login (s : server) (cid addr jid : N) : server * outcome :=
  match nget (s_conns s) cid with
  | Some _ => (s, ONone)                                  (* a connection logs in once *)
  | None =>
      if addr =? 0 then (s, OLoginRefused) else
      match s_last s with
      | None => (s, OLoginRefused)                        (* "block template is not ready yet" *)
      | Some (p, md) =>
          match nget (s_heap s) p with
          | None => (s, OPanic)
          | Some b =>
              let b' := mkblk (b_tpl b) addr (b_ts b) (b_extra b) (b_nonce b) (b_chains b) (b_diff b) in
              match blob_of cfg b' with
              | None => (s, OPanic)
              | Some sent =>
                  match job_target md with                  (* util.GetTargetBytes(lastMinDiff) *)
                  | None => (s, OPanic)
                  | Some t =>
                      let s1 := alloc s b' in
                      (set_conns s1 (nset (s_conns s1) cid (mkconn addr [mkjob jid (s_next s) (blob_seed cfg sent) sent t])),
                       OJob jid sent t)
                  end
              end
          end
      end
  end.

(* NewStratumJob: the block GetBlockTemplate allocates (recipient INVALID_ADDRESS = 0); SendJob(bl, mindiff) stores the
   pointer in LastBlock and mindiff in LastMinDiff, and its goroutines capture both arguments *)
Definition do_template (s : server) (tpl ts extra : N) (chains : list chain) (diff mindiff : N) : server * outcome :=
  let k := N.of_nat (length (s_tpls s)) + 1 in
  let p := s_next s in
  (mkserver (Some (p, mindiff)) (s_tpls s ++ [(k, (p, mindiff))]) (s_conns s)
            (nset (s_heap s) p (mkblk tpl 0 ts extra 0 chains diff)) (p + 1), ONone).

(* SendJob, body of v.Update for one connection: jobBl := *bl (a copy at a fresh address); rand.Read(jobBl.NonceExtra);
   jobBl.Recipient = c.Address; the job keeps the pointer to the copy; the target is that of the argument diff of
   THIS call of SendJob (the k-th), whatever LastMinDiff has become by the time the critical section runs. *)
Definition do_notify (s : server) (cid k extra jid : N) : server * outcome :=
  match nget (s_tpls s) k, nget (s_conns s) cid with
  | Some (p, d), Some c =>
      if c_addr c =? 0 then (s, ONone) else
      match nget (s_heap s) p with
      | None => (s, OPanic)
      | Some b =>
          let b' := mkblk (b_tpl b) (c_addr c) (b_ts b) extra (b_nonce b) (b_chains b) (b_diff b) in
          match blob_of cfg b' with
          | None => (s, OPanic)
          | Some sent =>
              match job_target d with                       (* util.GetTargetBytes(diff) *)
              | None => (s, OPanic)
              | Some t =>
                  let s1 := alloc s b' in
                  (set_conns s1 (nset (s_conns s1) cid
                     (mkconn (c_addr c) (push_job (c_jobs c) (mkjob jid (s_next s) (blob_seed cfg sent) sent t)))),
                   OJob jid sent t)
              end
          end
      end
  | _, _ => (s, ONone)
  end.

(* the block completed from the submitted fields: jb := *job.Block; SetMiningBlob; NonceExtra; Nonce *)
Inductive completed := CBlock (jb : blk) | CBlobRefused.
Definition complete (b : blk) (nonce : N) (x : extra_in) (mb : mblob_in) : completed :=
  let r1 := match mb with
            | MNone => Some b
            | MBad => None
            | MBlob m => if is_masterchain cfg then None else set_mining_blob cfg b m
            end in
  match r1 with
  | None => CBlobRefused
  | Some b1 =>
      let e := match x with XBytes len v => if len =? 16 then v else b_extra b1 | XNone => b_extra b1 end in
      CBlock (mkblk (b_tpl b1) (b_rcp b1) (b_ts b1) e nonce (b_chains b1) (b_diff b1))
  end.

(* the end of "submit": mb := jb.Commitment().MiningBlob(); powhash := PowHash(mb.GetSeed(), mb.Serialize());
   blockFound(&jb, powhash): outside the masterchain, found iff jb.ValidPowHash(powhash), i.e. the value meets the
   difficulty of the job's own block; the seed is that of the blob that is judged (its timestamp may come from a
   merge-mining blob and lie in another seed period than the job's), not the seed stored with the job *)
Definition judge (d rcp : N) (judged : blob) : option outcome :=
  match pow_valid (pow (blob_seed cfg judged) judged) d with
  | None => None                                  (* difficulty zero: uint128 division panics *)
  | Some true => Some (OFound rcp judged)
  | Some false => Some ORejectedLowDiff
  end.
Definition submit_result (s : server) (cid : N) (r : option outcome) : server * outcome :=
  match r with Some o => (s, o) | None => (kick s cid, OPanic) end.

(* "submit" in handleConn *)
Definition do_submit (s : server) (cid jid : N) (nonce : nonce_in) (x : extra_in) (mb : mblob_in) : server * outcome :=
  match nget (s_conns s) cid with
  | None => (s, ONone)
  | Some c =>
      match nonce with
      | NBadHex => (kick s cid, OMalformed)
      | NBytes len n =>
          if len <? 4 then (kick s cid, OMalformed) else
          match find_job (c_jobs c) jid with
          | None => (s, OUnknownJob)
          | Some j =>
              match nget (s_heap s) (j_ptr j) with
              | None => (kick s cid, OPanic)
              | Some b =>
                  match complete b n x mb with
                  | CBlobRefused => (kick s cid, OBlobRefused)
                  | CBlock jb =>
                      match blob_of cfg jb with
                      | None => (kick s cid, OPanic)
                      | Some judged => submit_result s cid (judge (b_diff jb) (b_rcp jb) judged)
                      end
                  end
              end
          end
      end
  end.

Definition step (s : server) (e : event) : server * outcome :=
  match e with
  | ELogin cid addr jid => do_login s cid addr jid
  | ETemplate tpl ts extra ch d md => do_template s tpl ts extra ch d md
  | ENotify cid k extra jid => do_notify s cid k extra jid
  | ESubmit cid jid n x mb => do_submit s cid jid n x mb
  | EDisconnect cid => (kick s cid, ONone)
  end.

Fixpoint run (s : server) (l : list event) : server * list outcome :=
  match l with
  | [] => (s, [])
  | e :: r => let '(s1, o) := step s e in let '(s2, os) := run s1 r in (s2, o :: os)
  end.

End Step.

(* ---- the miner's side of the trace ----
   What a connection was told, as a function of the events and the answers only: its login address and every job
   (id, blob, target) it was sent, oldest first.  "Within the advertised history" = among the last STRATUM_JOBS_HISTORY of
   them.  Used by Check/C15.v on the real server's answers and by the theorems of Props/C15.v on the model's. *)
Record adv := mkadv { a_sent : blob; a_target : N }.
Record mview := mkmview { mv_addr : N; mv_jobs : list (N * adv) }.

Definition view_step (g : list (N * mview)) (e : event) (o : outcome) : list (N * mview) :=
  match e, o with
  | ELogin cid addr _, OJob j b t => nset g cid (mkmview addr [(j, mkadv b t)])
  | ENotify cid _ _ _, OJob j b t =>
      match nget g cid with
      | Some v => nset g cid (mkmview (mv_addr v) (mv_jobs v ++ [(j, mkadv b t)]))
      | None => g
      end
  | EDisconnect cid, _ => ndel g cid
  | ESubmit cid _ _ _ _, OMalformed | ESubmit cid _ _ _ _, OBlobRefused | ESubmit cid _ _ _ _, OPanic => ndel g cid
  | _, _ => g
  end.

Definition lastn {A} (n : nat) (l : list A) : list A := skipn (length l - n) l.

Fixpoint find_sent (l : list (N * adv)) (jid : N) : option adv :=
  match l with
  | [] => None
  | (j, b) :: r => if j =? jid then Some b else find_sent r jid
  end.

Definition advertised (cfg : config) (v : mview) (jid : N) : option adv :=
  find_sent (lastn (N.to_nat (stratum_jobs_history cfg)) (mv_jobs v)) jid.

Section RunView.
Variable cfg : config.
Variable pow : N -> blob -> N.
Fixpoint run_view (s : server) (g : list (N * mview)) (l : list event) : server * list (N * mview) :=
  match l with
  | [] => (s, g)
  | e :: r => let '(s1, o) := step cfg pow s e in run_view s1 (view_step g e o) r
  end.
End RunView.
