(* Model of the account ledger: blockchain/bc-stateadd.go, bc-staterm.go, staking.go (GetStaker, delegates),
   ApplyBlockToState / RemoveBlockFromState of blockchain.go, transaction/tx_data.go (StateInputs/StateOutputs).
   Line-by-line functional transcription, including the code's quirks (ignored error of ApplyTxOutputsToState
   inside ApplyTxToState, wrapping counters, funds kept in insertion order).  Executable definitions only.

   Symbolic identifiers: addresses, keys, hashes are numbers assigned by the harness.
     address of key k      = 2*k+1
     delegate address of d = 2*d        (NewDelegateAddress; delegate_addr 0 is the burn address INVALID_ADDRESS)  *)
From Virel Require Export Lib.Config Lib.U64 Lib.AMap Model.Emission.
Open Scope N_scope.
Open Scope bool_scope.

Inductive res (A : Type) : Type := Ok (a : A) | Err (code : N) | Panic (code : N).
Arguments Ok {A} a.
Arguments Err {A} code.
Arguments Panic {A} code.

Definition bind {A B} (r : res A) (f : A -> res B) : res B :=
  match r with Ok a => f a | Err c => Err c | Panic c => Panic c end.
Notation "x <- r ;; k" := (bind r (fun x => k)) (at level 61, r at next level, right associativity).
Definition guard (b : bool) (code : N) : res unit := if b then Ok tt else Err code.
Definition of_opt {A} (o : option A) (code : N) : res A := match o with Some a => Ok a | None => Err code end.

Definition addr_of_key (k : N) : N := 2 * k + 1.
Definition delegate_addr (d : N) : N := 2 * d.
Definition burn_addr : N := 0.

Record acct := mkacct { bal : N; nonce : N; inc : N; deleg : N }.
Definition acct0 : acct := mkacct 0 0 0 0.
Record fund := mkfund { f_owner : N; f_amt : N; f_unlock : N }.
Record dlg := mkdlg { d_id : N; d_owner : N; d_name : N; d_funds : list fund }.

Record ledger := mkledger {
  accts : list (N * acct);         (* State index *)
  dlgs : list (N * dlg);           (* Delegate index, in database key order *)
  staked : N;                      (* Stats.StakedAmount *)
  dhist : list (N * dlg);          (* DelegateHistory index: block hash -> delegate before the reward *)
  intx : list ((N * N) * N);       (* InTx index: (address, counter) -> tx id / block hash *)
  outtx : list ((N * N) * N);      (* OutTx index *)
  txh : list (N * N)               (* height stored with each transaction *)
}.
Definition ledger0 : ledger := mkledger [] [] 0 [] [] [] [].

Definition set_accts l v := mkledger v (dlgs l) (staked l) (dhist l) (intx l) (outtx l) (txh l).
Definition set_dlgs l v := mkledger (accts l) v (staked l) (dhist l) (intx l) (outtx l) (txh l).
Definition set_staked l v := mkledger (accts l) (dlgs l) v (dhist l) (intx l) (outtx l) (txh l).
Definition set_dhist l v := mkledger (accts l) (dlgs l) (staked l) v (intx l) (outtx l) (txh l).
Definition set_intx l v := mkledger (accts l) (dlgs l) (staked l) (dhist l) v (outtx l) (txh l).
Definition set_outtx l v := mkledger (accts l) (dlgs l) (staked l) (dhist l) (intx l) v (txh l).
Definition set_txh l v := mkledger (accts l) (dlgs l) (staked l) (dhist l) (intx l) (outtx l) v.

Definition get_state (l : ledger) (a : N) : option acct := nget (accts l) a.
Definition put_state (l : ledger) (a : N) (s : acct) : ledger := set_accts l (nset (accts l) a s).

(* database key of a delegate: the 8 little-endian bytes of the id, compared lexicographically =
   the byte-reversed id compared numerically *)
Fixpoint bswap_aux (n : nat) (x acc : N) : N :=
  match n with O => acc | S k => bswap_aux k (x / 256) (acc * 256 + x mod 256) end.
Definition dbkey (id : N) : N := bswap_aux 8 id 0.

Fixpoint dins (m : list (N * dlg)) (id : N) (d : dlg) : list (N * dlg) :=
  match m with
  | [] => [(id, d)]
  | (id', d') :: r => if id =? id' then (id, d) :: r
                      else if dbkey id <? dbkey id' then (id, d) :: (id', d') :: r
                      else (id', d') :: dins r id d
  end.
Definition get_dlg (l : ledger) (id : N) : option dlg := nget (dlgs l) id.
Definition put_dlg (l : ledger) (d : dlg) : ledger := set_dlgs l (dins (dlgs l) (d_id d) d).
Definition del_dlg (l : ledger) (id : N) : ledger := set_dlgs l (ndel (dlgs l) id).

(* Delegate.TotalAmount: panics on uint64 overflow *)
Fixpoint total_amount_from (fs : list fund) (t : N) : res N :=
  match fs with
  | [] => Ok t
  | f :: r => let t' := wadd t (f_amt f) in if t' <? t then Panic 1 else total_amount_from r t'
  end.
Definition total_amount (d : dlg) : res N := total_amount_from (d_funds d) 0.

(* Stats.Staked / Stats.Unstaked *)
Definition stats_staked (l : ledger) (amt : N) : res ledger :=
  if wadd (staked l) amt <? staked l then Err 101 else Ok (set_staked l (wadd (staked l) amt)).
Definition stats_unstaked (l : ledger) (amt : N) : res ledger :=
  if staked l <? wsub (staked l) amt then Err 102 else Ok (set_staked l (wsub (staked l) amt)).

Section WithConfig.
Variable cfg : config.
Variable genesis_addr : N.   (* address.GenesisAddress *)
Variable team_key : N.       (* TEAM_STAKE_PUBKEY *)

(* ---------------- transactions ---------------- *)
Inductive txdata :=
| TTransfer (outs : list (N * N))            (* (recipient address, amount) *)
| TRegister (name_len name id : N)
| TSetDelegate (new_id prev_id : N)
| TStake (amt id prev_unlock : N)
| TUnstake (amt id : N).

Record tx := mktx {
  tx_id : N;              (* transaction hash *)
  tx_version : N;         (* 0 = pre-fork transfer without version byte *)
  tx_signer : N;          (* public key *)
  tx_sig_by : N;          (* key that produced the signature (0 = none/garbage) *)
  tx_sig_msg : bool;      (* the signed message is this transaction's content tagged with this network *)
  tx_signer_invalid : bool; (* FromPubKey(signer) = INVALID_ADDRESS *)
  tx_data : txdata;
  tx_nonce : N;
  tx_fee : N
}.

Definition data_version (d : txdata) : N :=
  match d with TTransfer _ => 1 | TRegister _ _ _ => 2 | TSetDelegate _ _ => 3 | TStake _ _ _ => 4 | TUnstake _ _ => 5 end.

(* Transfer.TotalAmount etc.: (amount, overflow?) *)
Fixpoint sum_outs (outs : list (N * N)) (s : N) : option N :=
  match outs with
  | [] => Some s
  | (_, a) :: r => let s' := wadd s a in if s' <? s then None else sum_outs r s'
  end.
Definition data_total (t : tx) : option N :=
  match tx_data t with
  | TTransfer outs => sum_outs outs 0
  | TRegister _ _ _ => Some (register_burn cfg)
  | TSetDelegate _ _ => Some 0
  | TStake a _ _ => Some a
  | TUnstake a _ => if a <? tx_fee t then None else Some (a - tx_fee t)
  end.
(* Transaction.TotalAmount (includes fee) *)
Definition tx_total (t : tx) : option N :=
  match data_total t with
  | None => None
  | Some amt => if wadd amt (tx_fee t) <? amt then None else Some (wadd amt (tx_fee t))
  end.
Definition data_vsize (d : txdata) : N :=
  match d with
  | TTransfer outs => N.of_nat (length outs) * output_overhead cfg
  | TRegister nl _ _ => 16 + nl
  | TSetDelegate _ _ => max_tx_per_block cfg
  | TStake _ _ _ => 256
  | TUnstake _ _ => 8
  end.
Definition tx_vsize (t : tx) : N := base_overhead cfg + data_vsize (tx_data t).

(* StateInputs: (amount, sender address) *)
Definition state_inputs (t : tx) (signer : N) : list (N * N) :=
  match tx_data t with
  | TTransfer outs => [(wadd (match sum_outs outs 0 with Some s => s | None => 0 end) (tx_fee t), signer)]
  | TRegister _ _ _ => [(wadd (tx_fee t) (register_burn cfg), signer)]
  | TSetDelegate _ _ => [(tx_fee t, signer)]
  | TStake a _ _ => [(wadd a (tx_fee t), addr_of_key (tx_signer t))]
  | TUnstake a id => [(a, delegate_addr id)]
  end.

(* StateOutputs: (type, amount, recipient, extra) ; Panic when Unstake fee > amount *)
Record sout := mksout { o_type : N; o_amt : N; o_rcpt : N; o_extra : N }.
Definition OUT_NORMAL : N := 0.
Definition OUT_STAKE : N := 5.
Definition state_outputs (t : tx) (signer : N) : res (list sout) :=
  match tx_data t with
  | TTransfer outs => Ok (map (fun o => mksout OUT_NORMAL (snd o) (fst o) 0) outs)
  | TRegister _ _ _ => Ok [mksout OUT_NORMAL (register_burn cfg) burn_addr 0]
  | TSetDelegate _ _ => Ok []
  | TStake a id _ => Ok [mksout OUT_STAKE a (delegate_addr id) id]
  | TUnstake a _ => if a <? tx_fee t then Panic 2 else Ok [mksout OUT_NORMAL (wsub a (tx_fee t)) signer 0]
  end.

(* Transaction.Prevalidate(height) *)
Definition sig_valid (t : tx) : bool := (tx_sig_by t =? tx_signer t) && negb (tx_sig_by t =? 0) && tx_sig_msg t.
Definition prevalidate_tx (t : tx) (height : N) : res unit :=
  _ <- guard (tx_vsize t <=? max_tx_size cfg) 201 ;;
  _ <- guard (if height <? hf_v2 cfg then tx_version t =? 0
              else if height <? hf_v3 cfg then tx_version t =? 1
              else (1 <=? tx_version t) && (tx_version t <=? 5)) 202 ;;
  _ <- guard (negb (tx_signer_invalid t)) 203 ;;
  _ <- guard (wmul (if hf_v3 cfg <=? height then fee_per_byte_v2 cfg else fee_per_byte cfg) (tx_vsize t) <=? tx_fee t) 204 ;;
  _ <- guard (sig_valid t) 205 ;;
  _ <- (match tx_data t with
        | TTransfer outs => guard (negb (N.of_nat (length outs) =? 0) && (N.of_nat (length outs) <=? max_outputs cfg)) 206
        | TRegister nl _ id => _ <- guard (nl <=? 16) 207 ;; _ <- guard (negb (id =? 0)) 208 ;;
                               guard (negb (id =? 1) || (tx_signer t =? team_key)) 209
        | TSetDelegate _ _ => Ok tt
        | TStake a _ _ => guard (min_stake cfg <=? a) 210
        | TUnstake a _ => guard (tx_fee t <=? a) 211
        end) ;;
  tot <- of_opt (tx_total t) 212 ;;
  outs <- state_outputs t (addr_of_key (tx_signer t)) ;;
  guard (fold_left (fun s o => wadd s (o_amt o)) outs (tx_fee t) =? tot) 213.

(* ---------------- staking ---------------- *)
Fixpoint find_fund (fs : list fund) (owner : N) : option fund :=
  match fs with [] => None | f :: r => if f_owner f =? owner then Some f else find_fund r owner end.
(* replace the first fund of [owner] by [nf]; [None] removes it *)
Fixpoint upd_fund (fs : list fund) (owner : N) (nf : option fund) : list fund :=
  match fs with
  | [] => []
  | f :: r => if f_owner f =? owner then (match nf with Some x => x :: r | None => r end) else f :: upd_fund r owner nf
  end.

(* position of the first fund of [owner] *)
Fixpoint fund_index (fs : list fund) (owner : N) : nat :=
  match fs with [] => O | f :: r => if f_owner f =? owner then O else S (fund_index r owner) end.
(* [x] placed before position [i] (at the end when the list is shorter) *)
Definition insert_at (i : nat) (x : fund) (fs : list fund) : list fund := firstn i fs ++ x :: skipn i fs.

(* unlock height and position of the signer's fund in the pool record saved by ApplyUnstake under the transaction id
   when it dropped the emptied fund *)
Definition saved_fund (l : ledger) (txid id signer : N) : option (N * nat) :=
  match nget (dhist l) txid with
  | Some old => if d_id old =? id then
                  match find_fund (d_funds old) signer with
                  | Some f => Some (f_unlock f, fund_index (d_funds old) signer)
                  | None => None
                  end
                else None
  | None => None
  end.
Definition saved_unlock (l : ledger) (txid id signer : N) : option N :=
  match saved_fund l txid id signer with Some (u, _) => Some u | None => None end.

Definition apply_stake (l : ledger) (amt id prev_unlock signer top_h txid : N) (reverse : bool) : res ledger :=
  d <- of_opt (get_dlg l id) 301 ;;
  funds' <- (match find_fund (d_funds d) signer with
             | Some f =>
                 _ <- guard (reverse || (f_unlock f =? prev_unlock)) 302 ;;
                 let unlock' := if reverse then f_unlock f else wadd top_h (unlock_time cfg) in
                 amt' <- of_opt (safe_add (f_amt f) amt) 303 ;;
                 Ok (upd_fund (d_funds d) signer (Some (mkfund signer amt' unlock')))
             | None =>
                 (* undoing an unstake that dropped the emptied fund: the fund comes back with the unlock height and
                    at the place it had; otherwise a new fund goes to the end *)
                 Ok (match (if reverse then saved_fund l txid (d_id d) signer else None) with
                     | Some (u, i) => insert_at i (mkfund signer amt u) (d_funds d)
                     | None => d_funds d ++ [mkfund signer amt (wadd top_h (unlock_time cfg))]
                     end)
             end) ;;
  l1 <- stats_staked l amt ;;
  Ok (put_dlg l1 (mkdlg (d_id d) (d_owner d) (d_name d) funds')).

Definition apply_unstake (l : ledger) (amt id signer top_h txid : N) (reverse : bool) (prev_unlock : N) : res ledger :=
  d <- of_opt (get_dlg l id) 311 ;;
  f <- of_opt (find_fund (d_funds d) signer) 312 ;;
  _ <- guard (reverse || negb (top_h <? f_unlock f)) 313 ;;
  _ <- guard (negb (f_amt f <? amt)) 314 ;;
  let l := if negb reverse && (f_amt f =? amt) then set_dhist l (nset (dhist l) txid d) else l in
  let amt' := f_amt f - amt in
  let unlock' := if reverse then prev_unlock else f_unlock f in
  let funds' := upd_fund (d_funds d) signer (if amt' =? 0 then None else Some (mkfund signer amt' unlock')) in
  l1 <- stats_unstaked l amt ;;
  Ok (put_dlg l1 (mkdlg (d_id d) (d_owner d) (d_name d) funds')).

(* uint128 Mul64: panics when the product does not fit 128 bits *)
Definition mul64 (a b : N) : res N := if a * b <? two128 then Ok (a * b) else Panic 3.

(* the reward distribution loop of ApplyPosReward: returns the new funds and totalAdded *)
Fixpoint pos_distribute (fs : list fund) (reward total : N) (added : N) : res (list fund * N) :=
  match fs with
  | [] => Ok ([], added)
  | f :: r =>
      x1 <- mul64 (f_amt f) reward ;;
      x2 <- mul64 (x1 / 100) 99 ;;
      let add := (x2 / total) mod two64 in
      _ <- guard (negb (wadd (f_amt f) add <? f_amt f)) 321 ;;
      rest <- pos_distribute r reward total (wadd added add) ;;
      Ok (mkfund (f_owner f) (wadd (f_amt f) add) (f_unlock f) :: fst rest, snd rest)
  end.

Definition apply_pos_reward (l : ledger) (blockhash : N) (o : sout) : res ledger :=
  _ <- guard (negb (o_extra o =? 0)) 331 ;;
  d <- of_opt (get_dlg l (o_extra o)) 332 ;;
  _ <- guard (negb (N.of_nat (length (d_funds d)) =? 0)) 333 ;;
  total <- total_amount d ;;
  _ <- guard (negb (total =? 0)) 334 ;;
  let l1 := set_dhist l (nset (dhist l) blockhash d) in
  dist <- pos_distribute (d_funds d) (o_amt o) total 0 ;;
  let '(funds1, added) := dist in
  _ <- guard (negb (o_amt o <? added)) 335 ;;
  let rounding := o_amt o - added in
  let owner := addr_of_key (d_owner d) in
  funds2 <- (match find_fund funds1 owner with
             | Some f => a <- of_opt (safe_add (f_amt f) rounding) 336 ;;
                         Ok (upd_fund funds1 owner (Some (mkfund owner a (f_unlock f))))
             | None => Ok (funds1 ++ [mkfund owner rounding 0])
             end) ;;
  let d2 := mkdlg (d_id d) (d_owner d) (d_name d) funds2 in
  total2 <- total_amount d2 ;;
  _ <- guard (total2 =? wadd total (o_amt o)) 337 ;;
  l2 <- stats_staked l1 (o_amt o) ;;
  Ok (put_dlg l2 d2).

(* ApplyTxOutputsToState: on error the changes made so far stay (the caller decides); returns (ledger, error) *)
Fixpoint apply_outputs (l : ledger) (blockhash : N) (outs : list sout) (txid : N) : ledger * option (res unit) :=
  match outs with
  | [] => (l, None)
  | o :: r =>
      let st := match get_state l (o_rcpt o) with Some s => s | None => acct0 end in
      match safe_add (bal st) (o_amt o) with
      | None => (l, Some (Err 341))
      | Some b =>
          let inc' := wadd (inc st) 1 in
          let l1 := set_intx l (pset (intx l) (o_rcpt o, inc') txid) in
          let l2 := put_state l1 (o_rcpt o) (mkacct b (nonce st) inc' (deleg st)) in
          if o_type o =? OUT_COINBASE_POS then
            match apply_pos_reward l2 blockhash o with
            | Ok l3 => apply_outputs l3 blockhash r txid
            | Err c => (l2, Some (Err c))
            | Panic c => (l2, Some (Panic c))
            end
          else apply_outputs l2 blockhash r txid
      end
  end.

Fixpoint apply_inputs (l : ledger) (ins : list (N * N)) : res ledger :=
  match ins with
  | [] => Ok l
  | (amt, sender) :: r =>
      s <- of_opt (get_state l sender) 351 ;;
      _ <- guard (negb (bal s <? amt)) 352 ;;
      apply_inputs (put_state l sender (mkacct (bal s - amt) (nonce s) (inc s) (deleg s))) r
  end.

(* ApplyTxToState. [height] = height of the block, [top_h] = stats.TopHeight at the time of the call *)
Definition apply_tx (l : ledger) (t : tx) (height blockhash top_h : N) : res ledger :=
  let signer := addr_of_key (tx_signer t) in
  st <- of_opt (get_state l signer) 361 ;;
  _ <- guard (tx_nonce t =? wadd (nonce st) 1) 362 ;;
  r1 <- (match tx_data t with
         | TStake a id pu =>
             if tx_version t =? 4 then
               _ <- guard (negb (id =? 0)) 363 ;; _ <- guard (deleg st =? id) 364 ;;
               l1 <- apply_stake l a id pu signer top_h (tx_id t) false ;; Ok (l1, st)
             else Ok (l, st)
         | TUnstake a id =>
             if tx_version t =? 5 then
               _ <- guard (negb (id =? 0)) 365 ;; _ <- guard (deleg st =? id) 366 ;;
               l1 <- apply_unstake l a id signer top_h (tx_id t) false 0 ;; Ok (l1, st)
             else Ok (l, st)
         | TRegister _ name id =>
             if tx_version t =? 2 then
               _ <- guard (match get_dlg l id with Some _ => false | None => true end) 367 ;;
               Ok (put_dlg l (mkdlg id (tx_signer t) name []), st)
             else Ok (l, st)
         | TSetDelegate new prev =>
             if tx_version t =? 3 then
               _ <- guard (prev =? deleg st) 368 ;;
               _ <- guard (match get_dlg l prev with
                           | Some d => match find_fund (d_funds d) signer with Some _ => false | None => true end
                           | None => true end) 369 ;;
               _ <- guard (match get_dlg l new with Some _ => true | None => false end) 370 ;;
               Ok (l, mkacct (bal st) (nonce st) (inc st) new)
             else Ok (l, st)
         | TTransfer _ => Ok (l, st)
         end) ;;
  let '(l1, st1) := r1 in
  let st2 := mkacct (bal st1) (wadd (nonce st1) 1) (inc st1) (deleg st1) in
  let l2 := put_state l1 signer st2 in
  l3 <- apply_inputs l2 (state_inputs t signer) ;;
  outs <- state_outputs t signer ;;
  let l4 := fst (apply_outputs l3 blockhash outs (tx_id t)) in   (* error ignored by the code *)
  let l5 := set_outtx l4 (pset (outtx l4) (signer, nonce st2) (tx_id t)) in
  Ok (set_txh l5 (nset (txh l5) (tx_id t) height)).

(* ---------------- lottery ---------------- *)
Fixpoint walk_delegates (ds : list (N * dlg)) (coin_index seen : N) : res (option dlg) :=
  match ds with
  | [] => Ok None
  | (_, d) :: r =>
      t <- total_amount d ;;
      let seen' := wadd seen t in
      if seen' <? seen then Panic 4
      else if coin_index <=? seen' then Ok (Some d) else walk_delegates r coin_index seen'
  end.
(* GetStaker: [hv] is the 128-bit value of the first 16 bytes of the previous block's hash; returns the id *)
Definition get_staker (l : ledger) (hv : N) : res N :=
  if staked l =? 0 then Ok 0
  else r <- walk_delegates (dlgs l) (hv mod staked l) 0 ;;
       match r with Some d => Ok (d_id d) | None => Err 381 end.

(* ---------------- blocks (the fields the ledger looks at) ---------------- *)
Record lblock := mklblock {
  lb_hash : N; lb_version : N; lb_height : N; lb_recipient : N;
  lb_delegate_id : N; lb_next_delegate_id : N; lb_signed : bool;
  lb_prev_lottery : N;           (* 128-bit lottery value of the previous block's hash *)
  lb_txs : list tx
}.

Definition coinbase_souts (b : lblock) (total : N) : res (list sout) :=
  match coinbase cfg (lb_version b) (lb_signed b) total with
  | CbPanic => Panic 5
  | CbOuts outs =>
      Ok (map (fun o : N * N =>
                 let '(ty, a) := o in
                 if ty =? OUT_COINBASE_DEV then mksout ty a genesis_addr 0
                 else if ty =? OUT_COINBASE_POW then mksout ty a (lb_recipient b) 0
                 else if ty =? OUT_COINBASE_POS then mksout ty a (delegate_addr (lb_delegate_id b)) (lb_delegate_id b)
                 else mksout ty a burn_addr 0) outs)
  end.

Fixpoint apply_txs (l : ledger) (txs : list tx) (height blockhash top_h fee : N) : res (ledger * N) :=
  match txs with
  | [] => Ok (l, fee)
  | t :: r =>
      l1 <- apply_tx l t height blockhash top_h ;;
      let fee' := wadd fee (tx_fee t) in
      _ <- guard (negb (fee' <? fee)) 391 ;;
      apply_txs l1 r height blockhash top_h fee'
  end.

(* ApplyBlockToState (ledger part) *)
Definition apply_block (l : ledger) (b : lblock) (top_h : N) : res ledger :=
  _ <- (if 0 <? lb_version b then
          s <- get_staker l (lb_prev_lottery b) ;; guard (s =? lb_next_delegate_id b) 392
        else Ok tt) ;;
  r <- apply_txs l (lb_txs b) (lb_height b) (lb_hash b) top_h 0 ;;
  let '(l1, fee) := r in
  let total := wadd (reward cfg (lb_height b)) fee in
  _ <- guard (negb (total <? reward cfg (lb_height b))) 393 ;;
  outs <- coinbase_souts b total ;;
  match apply_outputs l1 (lb_hash b) outs (lb_hash b) with
  | (l2, None) => Ok l2
  | (_, Some (Err c)) => Err c
  | (_, Some (Panic c)) => Panic c
  | (_, Some (Ok _)) => Err 394
  end.

(* ---------------- removal ---------------- *)
Definition remove_pos_reward (l : ledger) (blockhash : N) (o : sout) : res ledger :=
  _ <- guard (negb (o_extra o =? 0)) 401 ;;
  d <- of_opt (get_dlg l (o_extra o)) 402 ;;
  _ <- guard (negb (N.of_nat (length (d_funds d)) =? 0)) 403 ;;
  old <- of_opt (nget (dhist l) blockhash) 404 ;;
  _ <- guard ((d_id old =? d_id d) && (d_owner old =? d_owner d)) 405 ;;
  l1 <- stats_unstaked l (o_amt o) ;;
  Ok (put_dlg l1 old).

Fixpoint remove_outputs (l : ledger) (blockhash : N) (outs : list sout) : ledger * option (res unit) :=
  match outs with
  | [] => (l, None)
  | o :: r =>
      match get_state l (o_rcpt o) with
      | None => (l, Some (Err 411))
      | Some st =>
          if bal st <? o_amt o then (l, Some (Err 412))
          else if inc st =? 0 then (l, Some (Err 413))
          else
            let l1 := put_state l (o_rcpt o) (mkacct (bal st - o_amt o) (nonce st) (inc st - 1) (deleg st)) in
            if o_type o =? OUT_COINBASE_POS then
              match remove_pos_reward l1 blockhash o with
              | Ok l2 => remove_outputs l2 blockhash r
              | Err c => (l1, Some (Err c))
              | Panic c => (l1, Some (Panic c))
              end
            else remove_outputs l1 blockhash r
      end
  end.

Fixpoint remove_inputs (l : ledger) (ins : list (N * N)) : res ledger :=
  match ins with
  | [] => Ok l
  | (amt, sender) :: r =>
      s <- of_opt (get_state l sender) 421 ;;
      b <- of_opt (safe_add (bal s) amt) 422 ;;
      remove_inputs (put_state l sender (mkacct b (nonce s) (inc s) (deleg s))) r
  end.

(* RemoveTxFromState *)
Definition remove_tx (l : ledger) (t : tx) (blockhash top_h : N) : res ledger :=
  let signer := addr_of_key (tx_signer t) in
  let l0 := set_txh l (nset (txh l) (tx_id t) 0) in
  outs <- state_outputs t signer ;;
  let l1 := fst (remove_outputs l0 blockhash outs) in     (* error ignored by the code *)
  l2 <- remove_inputs l1 (state_inputs t signer) ;;
  st <- of_opt (get_state l2 signer) 431 ;;
  _ <- guard (negb (nonce st =? 0)) 432 ;;
  _ <- guard (nonce st =? tx_nonce t) 433 ;;
  let st1 := mkacct (bal st) (nonce st - 1) (inc st) (deleg st) in
  r <- (match tx_data t with
        | TStake a id pu =>
            if tx_version t =? 4 then
              _ <- guard (negb (id =? 0)) 434 ;; _ <- guard (deleg st1 =? id) 435 ;;
              l3 <- apply_unstake l2 a id signer top_h (tx_id t) true pu ;; Ok (l3, st1)
            else Ok (l2, st1)
        | TUnstake a id =>
            if tx_version t =? 5 then
              _ <- guard (negb (id =? 0)) 436 ;; _ <- guard (deleg st1 =? id) 437 ;;
              l3 <- apply_stake l2 a id 0 signer top_h (tx_id t) true ;; Ok (l3, st1)
            else Ok (l2, st1)
        | TRegister _ _ id =>
            if tx_version t =? 2 then
              d <- of_opt (get_dlg l2 id) 438 ;;
              _ <- guard (N.of_nat (length (d_funds d)) =? 0) 439 ;;
              Ok (del_dlg l2 id, st1)
            else Ok (l2, st1)
        | TSetDelegate new prev =>
            if tx_version t =? 3 then
              _ <- guard (new =? deleg st1) 440 ;;
              _ <- guard (match get_dlg l2 new with Some _ => true | None => false end) 441 ;;
              Ok (l2, mkacct (bal st1) (nonce st1) (inc st1) prev)
            else Ok (l2, st1)
        | TTransfer _ => Ok (l2, st1)
        end) ;;
  let '(l3, st2) := r in
  Ok (put_state l3 signer st2).

Fixpoint remove_txs (l : ledger) (txs_rev : list tx) (blockhash top_h : N) : res ledger :=
  match txs_rev with
  | [] => Ok l
  | t :: r => l1 <- remove_tx l t blockhash top_h ;; remove_txs l1 r blockhash top_h
  end.

(* RemoveBlockFromState (ledger part): the coinbase first, then the transactions in reverse order
   (exact mirror of apply_block) *)
Definition remove_block (l : ledger) (b : lblock) (top_h : N) : res ledger :=
  let fee := fold_left (fun s t => wadd s (tx_fee t)) (lb_txs b) 0 in
  let total := wadd (reward cfg (lb_height b)) fee in
  _ <- guard (negb (total <? reward cfg (lb_height b))) 451 ;;
  outs <- coinbase_souts b total ;;
  l1 <- (match remove_outputs l (lb_hash b) outs with
         | (l2, None) => Ok l2
         | (_, Some (Err c)) => Err c
         | (_, Some (Panic c)) => Panic c
         | (_, Some (Ok _)) => Err 452
         end) ;;
  remove_txs l1 (rev (lb_txs b)) (lb_hash b) top_h.

End WithConfig.
