(* Model of address/address.go: Integrated.String, FromString, the delegate and burn forms, the checksum.
   Executable definitions only.  A text is a list of byte codes (Go strings are byte strings);
   an address is a list of SIZE bytes; math/big and strconv are modelled through Lib/Digits.v:
     SetBytes = of_digits 256, Bytes = to_bytes = to_digits 256 (no leading zero byte, empty for 0),
     Text(36) / FormatUint(.,10) = digit characters of to_digits ("0" for 0),
     SetString(.,36) = optional sign, at least one digit, upper case accepted, value by Horner evaluation. *)
From Coq Require Export Bool.
From Virel Require Export Lib.Config Lib.U64 Lib.Digits Model.Crc32.
Open Scope bool_scope.
Open Scope N_scope.

Inductive parse_result :=
| POk (a : list N) (pid : N)
| PErr
| PPanic.

(* ---- characters ---- *)

(* digit -> character of math/big Text and strconv.FormatUint: 0-9 a-z *)
Definition digit_char (d : N) : N := if d <? 10 then 48 + d else 87 + d.

(* character -> digit value for bases <= 36 (nat.scan): 0-9, a-z, A-Z *)
Definition char_digit (c : N) : option N :=
  if (48 <=? c) && (c <=? 57) then Some (c - 48)
  else if (97 <=? c) && (c <=? 122) then Some (c - 87)
  else if (65 <=? c) && (c <=? 90) then Some (c - 55)
  else None.

(* the digits of a string in base b; None when a character is not a digit of that base *)
Fixpoint chars_digits (b : N) (s : list N) : option (list N) :=
  match s with
  | [] => Some []
  | c :: r =>
      match char_digit c with
      | Some d => if d <? b then match chars_digits b r with Some ds => Some (d :: ds) | None => None end else None
      | None => None
      end
  end.

(* Text(base) / FormatUint *)
Definition num_text (b n : N) : list N :=
  if n =? 0 then [48] else map digit_char (to_digits b n).

(* big.Int.SetString(s, 36) followed by Bytes(): the sign is accepted and has no effect on Bytes() *)
Definition strip_sign (s : list N) : list N :=
  match s with
  | c :: r => if (c =? 43) || (c =? 45) then r else s
  | [] => s
  end.

Definition set_string (b : N) (s : list N) : option N :=
  match strip_sign s with
  | [] => None                                   (* "number has no digits" *)
  | ds => match chars_digits b ds with
          | Some v => Some (of_digits b v)
          | None => None
          end
  end.

(* strconv.ParseUint(s, 10, 64): no sign, no underscore, at least one digit, value below 2^64 *)
Definition parse_uint10 (s : list N) : option N :=
  match s with
  | [] => None
  | _ => match chars_digits 10 s with
         | Some v => let n := of_digits 10 v in if n <? two64 then Some n else None
         | None => None
         end
  end.

Fixpoint list_N_eqb (a b : list N) : bool :=
  match a, b with
  | [], [] => true
  | x :: a', y :: b' => (x =? y) && list_N_eqb a' b'
  | _, _ => false
  end.

(* strings.HasPrefix *)
Fixpoint has_prefix (pre s : list N) : bool :=
  match pre, s with
  | [], _ => true
  | x :: pre', y :: s' => (x =? y) && has_prefix pre' s'
  | _ :: _, [] => false
  end.

Definition len (l : list N) : N := N.of_nat (length l).

Definition burn_text : list N := [98; 117; 114; 110; 97; 100; 100; 114; 101; 115; 115].   (* "burnaddress" *)

Section Address.
Variable cfg : config.

Definition SZ : nat := N.to_nat (addr_size cfg).

Definition zero_addr : list N := repeat 0 SZ.                       (* INVALID_ADDRESS *)
Definition all_zero (l : list N) : bool := forallb (N.eqb 0) l.

(* Address.IsDelegate: all bytes but the last eight are zero *)
Definition is_delegate (a : list N) : bool := all_zero (firstn (SZ - 8)%nat a).
(* Address.DecodeDelegateId: big-endian uint64 of the last eight bytes *)
Definition delegate_id (a : list N) : N := of_digits 256 (skipn (SZ - 8)%nat a).
(* binary.BigEndian.PutUint64 *)
Definition be_u64 (n : N) : list N := let ds := to_bytes (n mod two64) in repeat 0 (8 - length ds)%nat ++ ds.
(* NewDelegateAddress *)
Definition delegate_addr (id : N) : list N := repeat 0 (SZ - 8)%nat ++ be_u64 id.

(* Uint64ToCompactLittleEndian: little-endian bytes up to the last non-zero one, empty for 0 *)
Definition compact_le (n : N) : list N := rev (to_bytes n).
(* copy into an 8-byte buffer + binary.LittleEndian.Uint64 *)
Definition le_u64 (bs : list N) : N := of_le 256 (firstn 8 bs).

(* checksum: low 16 bits of CRC-32, little endian *)
Definition checksum (bs : list N) : N * N := let c := crc32 bs in (c mod 256, (c / 256) mod 256).

(* Integrated.bytes *)
Definition addr_bytes (a : list N) (pid : N) : list N :=
  let body := a ++ compact_le pid in
  let '(s0, s1) := checksum body in s0 :: s1 :: body.

(* Integrated.String *)
Definition format_addr (a : list N) (pid : N) : list N :=
  if all_zero a then burn_text
  else if is_delegate a then delegate_prefix cfg ++ num_text 10 (delegate_id a)
  else
    let b := addr_bytes a pid in
    (* every leading zero byte (dropped by big.Int) is written as a leading '0' digit *)
    wallet_prefix cfg ++ repeat 48 (lead_zeros b) ++ num_text 36 (of_digits 256 b).

(* FromString.  Index and slice expressions of the Go code that would panic when out of range are PPanic here. *)

(* from "if len(data) < SIZE+2" to the end *)
Definition decode_payload (data : list N) : parse_result :=
  if len data <? addr_size cfg + 2 then PErr
  else match data with
  | d0 :: d1 :: body =>                                               (* data[0], data[1], data[2:] *)
    let '(s0, s1) := checksum body in
    if negb (d0 =? s0) || negb (d1 =? s1) then PErr
    else if Nat.ltb (length body) SZ then PPanic                      (* data[2 : 2+SIZE]; conservative: Go allows slicing up to cap(data) *)
    else
      let pid := if addr_size cfg + 2 <? len data then le_u64 (skipn SZ body) else 0 in
      POk (firstn SZ body) pid
  | _ => PPanic
  end.

Definition parse_account (p : list N) : parse_result :=
  if len p <? 4 then PErr
  else match p with
  | [] => PPanic                                                       (* p[0] *)
  | c :: s =>
    if negb (c =? hd 0 (wallet_prefix cfg)) then PErr
    else match set_string 36 s with
    | None => PErr
    | Some v =>
      (* leading '0' digits stand for leading zero bytes: append(make([]byte, zeros), bigi.Bytes()...) *)
      decode_payload (repeat 0 (lead_count 48 s) ++ to_bytes v)
    end
  end.

Definition parse_delegate (p : list N) : parse_result :=
  if len p <? len (delegate_prefix cfg) + 1 then PErr
  else match parse_uint10 (skipn (length (delegate_prefix cfg)) p) with
       | Some n => POk (delegate_addr n) 0
       | None => PErr
       end.

Definition parse_addr (p : list N) : parse_result :=
  if list_N_eqb p burn_text then POk zero_addr 0
  else if has_prefix (delegate_prefix cfg) p then parse_delegate p
  else parse_account p.

End Address.
