(* Model of block synchronisation at message granularity (property C11).
   Transcribes the logic of blockchain.go (Synchronize, RequestBlock, AddBlock's orphan branch), bc-p2p.go
   (packetStats, packetBlockRequest, packetBlock), validator.go (PostprocessBlock, selectAndPostprocess,
   executePostprocess) and blockqueue.go as a state machine over the node model of Model/Node.v.
   What is NOT here (and cannot be executed by a Gallina function): goroutines, sockets, the encrypted framing,
   timers.  Time shows up only as (a) the clock reading that accompanies a received block, (b) the event
   [EvExpire] (an entry of the download queue expires), (c) the order in which events happen.
   Executable definitions only. *)
From Virel Require Export Model.Node.
Open Scope N_scope.
Open Scope bool_scope.

(* PacketBlockRequest: Height = 0 means "by hash" *)
Inductive request := ReqHeight (h count : N) | ReqHash (hash : N).

Record sync := mksync {
  sy_node : node;
  sy_height : N;               (* SyncHeight: best height announced by a peer *)
  sy_diff : N;                 (* SyncDiff: best cumulative difficulty announced by a peer *)
  sy_last : N;                 (* SyncLastRequestHeight *)
  sy_wait : N;                 (* the counter n of Synchronize (iterations spent waiting for requested blocks) *)
  sy_fwait : N;                (* the counter forkWait of Synchronize (pacing of the request for a heavier chain that is not higher) *)
  sy_queue : list (N * N);     (* BlockQueue: (hash, height) of blocks to download, sorted by height *)
  sy_buf : list (block * N)    (* Validator.postprocess: prevalidated blocks, each with the clock reading of its prevalidation *)
}.

Definition set_node s v := mksync v (sy_height s) (sy_diff s) (sy_last s) (sy_wait s) (sy_fwait s) (sy_queue s) (sy_buf s).
Definition set_target s h d := mksync (sy_node s) h d (sy_last s) (sy_wait s) (sy_fwait s) (sy_queue s) (sy_buf s).
Definition set_last s l w := mksync (sy_node s) (sy_height s) (sy_diff s) l w (sy_fwait s) (sy_queue s) (sy_buf s).
Definition set_fwait s w := mksync (sy_node s) (sy_height s) (sy_diff s) (sy_last s) (sy_wait s) w (sy_queue s) (sy_buf s).
Definition set_queue s q := mksync (sy_node s) (sy_height s) (sy_diff s) (sy_last s) (sy_wait s) (sy_fwait s) q (sy_buf s).
Definition set_buf s b := mksync (sy_node s) (sy_height s) (sy_diff s) (sy_last s) (sy_wait s) (sy_fwait s) (sy_queue s) b.

(* blockchain.New: the target starts at the node's own statistics *)
Definition sync0 (n : node) : sync := mksync n (top_h n) (top_cd n) 0 0 0 [] [].

(* ---------------- the serving side: packetBlockRequest ---------------- *)
(* GetBlockByHeight: topo index, then block index *)
Definition block_at (n : node) (h : N) : option block :=
  match get_topo n h with Some hh => get_block n hh | None => None end.

(* heights h, h+1, ... ([k] of them); the loop stops at the first height without a block and what was collected is sent *)
Fixpoint serve_heights (n : node) (h : N) (k : nat) : list block :=
  match k with
  | O => []
  | S k' => match block_at n h with
            | Some b => b :: serve_heights n (h + 1) k'
            | None => []
            end
  end.

Section WithConfig.
Variable cfg : config.
Variable genesis_addr : N.
Variable team_key : N.

Notation pbd := (parallel_blocks cfg).

(* a by-height request for (h, count) is answered with the main-chain blocks of heights h .. h+count
   (count+1 blocks: "how many blocks to request after the requested block").
   The uint64 sum h+count must not wrap (heights are far below 2^64). *)
Definition serve (n : node) (r : request) : list block :=
  match r with
  | ReqHeight h c =>
      if pbd <? c then []
      else if two64 <=? h + c then []
      else serve_heights n h (S (N.to_nat c))
  | ReqHash hh => match get_block n hh with Some b => [b] | None => [] end
  end.

(* ---------------- packetStats ---------------- *)
(* The model has ONE implicit set of peers that never shrinks: the target is the heaviest statistics heard so far.  (The
   implementation recomputes SyncHeight / SyncDiff in every Synchronize iteration from the peers that are still
   connected, so that the announcement of a peer that has left does not stay; peers leaving are not modelled.) *)
Definition recv_stats (s : sync) (h cd : N) : sync :=
  if sy_diff s <? cd then set_target s h cd else s.

(* ---------------- the download queue (blockqueue.go) ---------------- *)
Fixpoint queue_insert_sorted (q : list (N * N)) (e : N * N) : list (N * N) :=
  match q with
  | [] => [e]
  | x :: r => if snd e <? snd x then e :: q else x :: queue_insert_sorted r e
  end.
(* SetBlock(qb, replace = true): an entry with the same hash is replaced in place, otherwise appended and the
   queue is sorted by height (stable) *)
Definition queue_set (q : list (N * N)) (e : N * N) : list (N * N) :=
  if existsb (fun x => fst x =? fst e) q
  then map (fun x => if fst x =? fst e then e else x) q
  else queue_insert_sorted q e.
Definition queue_remove (q : list (N * N)) (hash : N) : list (N * N) :=
  filter (fun x => negb (fst x =? hash)) q.

(* the request Synchronize builds from a queue entry: {Hash: r.Hash, Height: r.Height}; the wire form only carries
   the hash when the height is zero *)
Definition queue_request (e : N * N) : request :=
  if snd e =? 0 then ReqHash (fst e) else ReqHeight (snd e) 0.

(* ---------------- Synchronize: one iteration ---------------- *)
(* the highest height at which the node holds a block: its own height or the height of an alternative tip *)
Definition held_height (n : node) : N :=
  fold_left (fun acc (kv : N * tip) => N.max acc (t_height (snd kv))) (tips n) (top_h n).

(* the by-height part (the function literal that runs under SyncMut); [rq] = the request already made for a queue entry *)
Definition tick_height (s : sync) (rq : list request) : sync * list request :=
  let n := sy_node s in
  if (top_h n <? sy_last s) && negb (20 <? sy_wait s)
  then (set_last s (sy_last s) (sy_wait s + 1), rq)             (* blocks were requested and have not arrived yet: wait *)
  else
    (* waited long enough.  The requested blocks have not extended the main chain: they are lost only if no block is
       held at the last requested height (blocks of a branch that is not heavier yet are stored as an alternative chain,
       which does not move our height): then start again at our height, otherwise continue above them *)
    let last0 := if top_h n <? sy_last s
                 then (if (held_height n <? sy_last s) || (sy_height s <=? sy_last s) then top_h n else sy_last s)
                 else sy_last s in
    let last := N.max last0 (top_h n) in
    let s1 := set_last s last 0 in
    if last <? sy_height s then
      let count := N.min (sy_height s - last) pbd in
      (set_last s1 (last + count) 0, rq ++ [ReqHeight (last + 1) count])
    else if sy_height s <=? top_h n then
      (* the heavier chain is not higher than ours, so it leaves our chain below our tip: ask for its last blocks
         (paced: once every 21 iterations) *)
      let start := if pbd <? sy_height s then sy_height s - pbd + 1 else 1 in
      let s2 := set_fwait s1 (if 20 <=? sy_fwait s then 0 else sy_fwait s + 1) in
      if (sy_fwait s =? 0) && (start <=? sy_height s)
      then (s2, rq ++ [ReqHeight start (sy_height s - start)])
      else (s2, rq)
    else (s1, rq).

(* Returns the new state and the requests sent.  The queue entry requested is moved behind the others
   (the implementation marks it with the time of the request and skips it for a second). *)
Definition tick (s : sync) : sync * list request :=
  if sy_diff s <=? top_cd (sy_node s) then (s, [])
  else
    match sy_queue s with
    | [] => tick_height s []
    | e :: r =>
        if fst e =? 0 then (set_queue s (queue_remove (sy_queue s) 0), [])   (* an all-zero hash is dropped; nothing else this time *)
        else tick_height (set_queue s (r ++ [e])) [queue_request e]
    end.

(* ---------------- packetBlock ---------------- *)
(* a decoded BLOCK packet: prevalidation (with the clock reading [now]); a block that passes waits in the
   validator's buffer for the post-processor *)
Definition recv_block (s : sync) (b : block) (now : N) : sync :=
  match prevalidate_block cfg team_key b now with
  | Ok _ => set_buf s (sy_buf s ++ [(b, now)])
  | _ => s
  end.

(* ---------------- selectAndPostprocess: one iteration ---------------- *)
(* index of the first entry of minimal height (what the scan "if h < smallestHeight" computes) *)
Definition hgt (x : block * N) : N := b_height (fst x).
Fixpoint min_index (l : list (block * N)) : nat :=
  match l with
  | [] => O
  | x :: r =>
      match r with
      | [] => O
      | _ => let j := min_index r in
             match nth_error r j with
             | Some y => if hgt y <? hgt x then S j else O
             | None => O
             end
      end
  end.

(* v.postprocess[i] = v.postprocess[last]; v.postprocess = v.postprocess[:last] *)
Fixpoint swap_remove {A} (l : list A) (i : nat) : list A :=
  match l, i with
  | [], _ => []
  | x :: r, O => match r with
                 | [] => []
                 | _ => last r x :: removelast r
                 end
  | x :: r, S i' => x :: swap_remove r i'
  end.

(* executePostprocess of one block = one [deliver]; then the queue bookkeeping of AddBlock's orphan branch
   (the missing parent is queued with its hash and height) and of the failure path (RemoveBlock of this hash) *)
Definition post_block (s : sync) (b : block) (now : N) : sync :=
  let '(n1, out, _) := deliver cfg genesis_addr team_key (sy_node s) b now in
  let q :=
    match out with
    | Accepted => sy_queue s
    | Rejected c =>
        let q1 := if c =? 762 then queue_set (sy_queue s) (prev_hash b, wsub (b_height b) 1) else sy_queue s in
        queue_remove q1 (b_hash b)
    | Crashed _ => sy_queue s
    end in
  set_queue (set_node s n1) q.

Definition post_one (s : sync) : sync :=
  match sy_buf s with
  | [] => s
  | _ =>
      let i := min_index (sy_buf s) in
      match nth_error (sy_buf s) i with
      | Some (b, now) => post_block (set_buf s (swap_remove (sy_buf s) i)) b now
      | None => s
      end
  end.

(* the whole loop: until the buffer is empty *)
Fixpoint flush_n (k : nat) (s : sync) : sync :=
  match k with
  | O => s
  | S k' => flush_n k' (post_one s)
  end.
Definition flush (s : sync) : sync := flush_n (length (sy_buf s)) s.


(* ---------------- executable premise of the linear catch-up theorem ---------------- *)
(* [bs] is a chain of valid extension blocks on top of [n] (each names the tip as parent, has the next height, is
   accepted by AddBlock as the new tip) whose cumulative difficulty grows strictly with every block *)
Fixpoint linear_chain_b (n : node) (bs : list block) : bool :=
  match bs with
  | [] => true
  | b :: r =>
      (prev_hash b =? top n) && (b_height b =? top_h n + 1) &&
      match add_block cfg genesis_addr n b with
      | Ok (n1, false) => (top_cd n <? top_cd n1) && linear_chain_b n1 r
      | _ => false
      end
  end.

(* ---------------- events ---------------- *)
Inductive event :=
| EvStats (h cd : N)              (* STATS packet from any peer *)
| EvTick                          (* one iteration of Synchronize (requests are sent to a peer; see [tick]) *)
| EvBlock (b : block) (now : N)   (* BLOCK packet from any peer: solicited or not, valid or not *)
| EvPost                          (* the post-processor handles one buffered block *)
| EvExpire (hash : N).            (* a queue entry expires *)

Definition step (s : sync) (e : event) : sync :=
  match e with
  | EvStats h cd => recv_stats s h cd
  | EvTick => fst (tick s)
  | EvBlock b now => recv_block s b now
  | EvPost => post_one s
  | EvExpire h => set_queue s (queue_remove (sy_queue s) h)
  end.

Definition steps (s : sync) (es : list event) : sync := fold_left step es s.

(* ---------------- one request round against a serving peer (used by the liveness theorem and the checker) ----- *)
(* the blocks of the answers arrive as [arr] (any arrangement chosen by the network), then the post-processor
   drains the buffer *)
Definition recv_all (s : sync) (arr : list (block * N)) : sync :=
  fold_left (fun s bn => recv_block s (fst bn) (snd bn)) arr s.

Definition round_with (s : sync) (arr : list (block * N)) : sync := flush (recv_all (fst (tick s)) arr).

(* ---------------- a deterministic simulation for the checker ---------------- *)
Inductive arrangement := ArrId | ArrRev | ArrDup | ArrCut (k : nat) | ArrNone.

Definition arrange (a : arrangement) (l : list block) : list block :=
  match a with
  | ArrId => l
  | ArrRev => rev l
  | ArrDup => flat_map (fun b => [b; b]) l
  | ArrCut k => firstn k l
  | ArrNone => []
  end.

(* one round against [peer]: Synchronize iteration, the peer answers every request, the answers arrive arranged
   by [a] together with the unsolicited blocks [extra] *)
Definition sim_round (peer : node) (s : sync) (a : arrangement) (extra : list block) (now : N) : sync :=
  let '(s1, reqs) := tick s in
  let answers := flat_map (serve peer) reqs in
  let arr := map (fun b => (b, now)) (extra ++ arrange a answers) in
  flush (recv_all s1 arr).

(* [script] gives the arrangement of the first rounds; afterwards the network is faithful.
   Stops when the node's tip is the peer's tip or the fuel is spent. *)
Fixpoint sim (fuel : nat) (peer : node) (s : sync) (script : list arrangement) (now : N) : sync * nat :=
  match fuel with
  | O => (s, O)
  | S f =>
      if top (sy_node s) =? top peer then (s, fuel)
      else
        let s0 := recv_stats s (top_h peer) (top_cd peer) in
        match script with
        | a :: r => sim f peer (sim_round peer s0 a [] now) r now
        | [] => sim f peer (sim_round peer s0 ArrId [] now) [] now
        end
  end.

End WithConfig.
