(* Model of the node: block store, fork choice and reorganisation.
   Transcribes blockchain/bc-block.go (PrevalidateBlock), blockchain.go (checkBlock, AddBlock, addMainchainBlock,
   addAltchainBlock, CheckReorgs), difficulty.go (GetNextDifficulty), validator.go (executePostprocess),
   block.go (ContributionToCumulativeDiff, ValidPowHash32).  One [deliver] = one DB.Update: an error anywhere
   returns the old node.  Cryptography is symbolic: hashes are numbers, proof-of-work values and the lottery
   value of a hash are supplied with the block, a signature is (signing key, signed message id).
   Executable definitions only. *)
From Virel Require Export Model.Ledger.
Open Scope N_scope.
Open Scope bool_scope.

(* side-block commitment as far as validation looks at it *)
Record commit := mkcommit {
  cm_eq : N;        (* class of (BaseHash, Timestamp, Nonce, NonceExtra): Commitment.Equals *)
  cm_dup : N;       (* class of (BaseHash, Nonce, NonceExtra): duplicate test of PrevalidateBlock *)
  cm_anc : list N;  (* the three ancestors *)
  cm_ts : N;
  cm_pow : N;       (* 128-bit proof-of-work value of its mining blob under the block's seed *)
  cm_bad_chains : bool  (* its OtherChains contain this network's id or a repeated network id
                           (Commitment.MiningBlob() would panic while sorting; PrevalidateBlock refuses it) *)
}.

Record block := mkblock {
  b_hash : N; b_version : N; b_height : N; b_ts : N;
  b_anc : list N;                 (* three ancestor hashes, parent first *)
  b_sides : list commit;
  b_recipient : N;
  b_delegate_id : N; b_next_delegate_id : N;
  b_sig_blank : bool; b_sig_key : N; b_sig_msg : N;   (* stake signature: by which key, over which block hash *)
  b_diff : N; b_cd : N;
  b_txs : list tx;
  b_chains : list (N * N);        (* OtherChains: (network id, hash id) *)
  b_pow : N;                      (* 128-bit proof-of-work value of the block's own mining blob *)
  b_lottery : N;                  (* 128-bit value of the first 16 bytes of the block's hash *)
  b_commit : commit;              (* the block's own Commitment() *)
  b_cp_match : bool               (* hash equals the embedded checkpoint of its height (when there is one) *)
}.

Definition anc_nth (l : list N) (i : nat) : N := nth i l 0.
Definition prev_hash (b : block) : N := anc_nth (b_anc b) 0.
Definition staked_hash (b : block) : N := anc_nth (b_anc b) 2.

Record tip := mktip { t_hash : N; t_height : N; t_cd : N }.

Record node := mknode {
  blocks : list (N * block);     (* Block index *)
  topo : list (N * N);           (* Topo index: height -> hash *)
  top : N; top_h : N; top_cd : N;
  tips : list (N * tip);         (* Stats.Tips: hash of the tip block -> tip (an extended tip is re-filed under its new hash) *)
  ldg : ledger
}.

Definition set_blocks n v := mknode v (topo n) (top n) (top_h n) (top_cd n) (tips n) (ldg n).
Definition set_topo n v := mknode (blocks n) v (top n) (top_h n) (top_cd n) (tips n) (ldg n).
Definition set_top n h ht cd := mknode (blocks n) (topo n) h ht cd (tips n) (ldg n).
Definition set_tips n v := mknode (blocks n) (topo n) (top n) (top_h n) (top_cd n) v (ldg n).
Definition set_ldg n v := mknode (blocks n) (topo n) (top n) (top_h n) (top_cd n) (tips n) v.

Definition get_block (n : node) (h : N) : option block := nget (blocks n) h.
Definition get_topo (n : node) (ht : N) : option N := nget (topo n) ht.

Definition max128 : N := two128 - 1.

Section WithConfig.
Variable cfg : config.
Variable genesis_addr : N.
Variable team_key : N.

Definition to_lblock (b : block) (prev_lottery : N) : lblock :=
  mklblock (b_hash b) (b_version b) (b_height b) (b_recipient b) (b_delegate_id b) (b_next_delegate_id b)
           (negb (b_sig_blank b)) prev_lottery (b_txs b).

(* ---------------- checkpoints (checkpoints.go) ---------------- *)
Definition is_secured (h : N) : bool :=
  if cp_max cfg =? 0 then false else h <=? wmul (cp_max cfg) (cp_interval cfg).
Definition is_checkpoint (h : N) : bool :=
  if cp_max cfg =? 0 then false
  else negb (h =? 0) && (h mod cp_interval cfg =? 0) && (h / cp_interval cfg <=? cp_max cfg).

(* ---------------- difficulty (difficulty.go) ---------------- *)
Definition to_int64 (x : N) : Z := let x' := x mod two64 in if x' <? 9223372036854775808 then Z.of_N x' else (Z.of_N x' - 18446744073709551616)%Z.

Definition difficulty_ema (solve_time prev_diff : N) : res N :=
  let nt := difficulty_n cfg * (target_block_time cfg * 1000) in
  num <- mul64 prev_diff nt ;;
  let den := wadd (wsub nt (target_block_time cfg * 1000)) solve_time in
  if den =? 0 then Panic 6 else Ok (num / den).

(* GetNextDifficulty(bl): difficulty of the block after [bl]; [grand_ts] = timestamp of bl's parent *)
Definition next_difficulty (bl_height bl_ts bl_diff grand_ts : N) : res N :=
  let delta0 := wsub bl_ts grand_ts in
  let delta1 := if delta0 <? 100 then 100 else delta0 in
  let delta2 :=
    if genesis_timestamp cfg =? 0 then delta1
    else
      let expected := wadd (wmul (wmul bl_height (target_block_time cfg)) 1000) (genesis_timestamp cfg) in
      let devi := (to_int64 bl_ts - to_int64 expected)%Z in
      let devw := to_int64 (Z.to_N (devi mod 18446744073709551616)%Z) in
      let maxdev := Z.of_N (target_block_time cfg * 1000 * 2 * difficulty_n cfg) in
      if (maxdev <? devw)%Z then wmul delta1 3 / 2
      else if (devw <? - maxdev)%Z then wmul delta1 2 / 3
      else delta1 in
  d <- difficulty_ema delta2 bl_diff ;;
  Ok (if d <? min_difficulty cfg then min_difficulty cfg else d).

Definition get_next_difficulty (n : node) (bl : block) : res N :=
  if b_height bl <? 2 then Ok (min_difficulty cfg)
  else
    prev <- of_opt (get_block n (prev_hash bl)) 501 ;;
    next_difficulty (b_height bl) (b_ts bl) (b_diff bl) (b_ts prev).

(* ---------------- block.go ---------------- *)
Definition add128 (a b : N) : res N := if a + b <? two128 then Ok (a + b) else Panic 7.
Definition div128 (a b : N) : res N := if b =? 0 then Panic 8 else Ok (a / b).

(* ContributionToCumulativeDiff *)
Definition contribution (b : block) : res N :=
  x <- mul64 (b_diff b) (wmul 2 (N.of_nat (length (b_sides b)))) ;;
  let side := x / 3 in
  s <- add128 (b_diff b) side ;;
  if (0 <? b_version b) && b_sig_blank b then Ok (s / 2) else Ok s.

(* ValidPowHash32: val <= Max / diff *)
Definition valid_pow (val diff : N) : res bool :=
  t <- div128 max128 diff ;; Ok (val <=? t).

Definition seedhash_id (ts : N) : N := ts / (seedhash_duration cfg * 1000).

Definition list_nat_eqb (a b : list N) : bool :=
  (fix go a b := match a, b with
                 | [], [] => true
                 | x :: a', y :: b' => (x =? y) && go a' b'
                 | _, _ => false end) a b.

(* ---------------- PrevalidateBlock ---------------- *)
Fixpoint chains_ok (cs : list (N * N)) : bool :=
  match cs with
  | [] => true
  | (nid, h) :: r =>
      negb (nid =? network_id cfg) &&
      forallb (fun c : N * N => negb ((fst c =? nid) || (snd c =? h))) r && chains_ok r
  end.

Fixpoint sides_dup_free (ss : list commit) : bool :=
  match ss with
  | [] => true
  | s :: r => forallb (fun s2 => negb (cm_dup s2 =? cm_dup s)) r && sides_dup_free r
  end.

Fixpoint prevalidate_txs (ts : list tx) (h : N) : res unit :=
  match ts with
  | [] => Ok tt
  | t :: r => _ <- prevalidate_tx cfg team_key t h ;; prevalidate_txs r h
  end.

Fixpoint sides_pow (ss : list commit) (b : block) : res unit :=
  match ss with
  | [] => Ok tt
  | s :: r =>
      _ <- guard (seedhash_id (cm_ts s) =? seedhash_id (b_ts b)) 611 ;;
      _ <- guard (negb (cm_bad_chains s)) 613 ;;
      x <- mul64 (b_diff b) 2 ;;
      let side_diff := if x / 3 =? 0 then b_diff b else x / 3 in   (* 2/3 of difficulty 1 rounds to 0: own difficulty *)
      ok <- valid_pow (cm_pow s) side_diff ;;
      _ <- guard ok 612 ;;
      sides_pow r b
  end.

Definition prevalidate_block (b : block) (now : N) : res unit :=
  _ <- guard (b_version b =? (if hf_v3 cfg <=? b_height b then 1 else 0)) 601 ;;
  _ <- guard (negb (b_diff b =? 0)) 602 ;;
  _ <- guard (min_difficulty cfg <=? b_diff b) 603 ;;
  _ <- guard (b_ts b <=? wadd now (future_time_limit cfg * 1000)) 604 ;;
  _ <- guard (chains_ok (b_chains b)) 605 ;;
  _ <- prevalidate_txs (b_txs b) (b_height b) ;;
  _ <- (if (b_height b =? 440) && is_secured (b_height b) then Ok tt   (* mainnet block 440, pinned by the checkpoints *)
        else _ <- guard (forallb (fun s => negb (list_nat_eqb (cm_anc s) (b_anc b))) (b_sides b)) 606 ;;
             guard (sides_dup_free (b_sides b)) 607) ;;
  if negb (is_secured (b_height b)) then
    ok <- valid_pow (b_pow b) (b_diff b) ;;
    _ <- guard ok 608 ;;
    sides_pow (b_sides b) b
  else if is_checkpoint (b_height b) then guard (b_cp_match b) 609
  else Ok tt.

(* ---------------- checkBlock ---------------- *)
(* the ancestor scan of one side block: returns heightDiff (None = -1) or the "subsequent block isn't valid" error *)
Definition find_last_common (banc : list N) (ancid : nat) (anc : N) : option nat :=
  (fix go (l : list N) (vid : nat) (acc : option nat) : option nat :=
     match l with
     | [] => acc
     | v :: r => go r (S vid) (if (Nat.leb ancid vid) && (v =? anc) then Some (vid - ancid)%nat else acc)
     end) banc O None.

Fixpoint side_scan (sanc : list N) (banc : list N) (ancid : nat) (hd : option nat) : res (option nat) :=
  match sanc with
  | [] => Ok hd
  | anc :: r =>
      match hd with
      | None => side_scan r banc (S ancid) (find_last_common banc ancid anc)
      | Some d =>
          if Nat.leb (length banc) (ancid + d) then Ok hd     (* break *)
          else if anc =? nth (ancid + d) banc 0 then side_scan r banc (S ancid) hd
          else Err 701
      end
  end.

Definition commit_in_block (s : commit) (bl : block) : bool :=
  (cm_eq s =? cm_eq (b_commit bl)) || existsb (fun v => cm_eq s =? cm_eq v) (b_sides bl).

(* the "previous ancestors" loop of checkBlock over bl.Ancestors[1:] *)
Fixpoint side_in_ancestors (n : node) (s : commit) (ancs : list N) : res unit :=
  match ancs with
  | [] => Ok tt
  | a :: r =>
      ab <- of_opt (get_block n a) 702 ;;
      _ <- guard (negb (commit_in_block s ab)) 703 ;;
      if b_height ab =? 0 then Ok tt else side_in_ancestors n s r
  end.

Fixpoint check_sides (n : node) (b prev : block) (ss : list commit) : res unit :=
  match ss with
  | [] => Ok tt
  | s :: r =>
      hd <- side_scan (cm_anc s) (b_anc b) O None ;;
      _ <- guard (match hd with Some _ => true | None => false end) 704 ;;
      _ <- guard (negb (commit_in_block s prev)) 705 ;;
      _ <- (if 0 <? b_height prev then side_in_ancestors n s (tl (b_anc b)) else Ok tt) ;;
      check_sides n b prev r
  end.

Definition check_block (n : node) (b prev : block) : res unit :=
  expect <- get_next_difficulty n prev ;;
  _ <- guard (b_diff b =? expect) 711 ;;
  _ <- guard (b_height b =? wadd (b_height prev) 1) 712 ;;
  _ <- guard (b_ts prev <=? b_ts b) 713 ;;
  _ <- check_sides n b prev (b_sides b) ;;
  c <- contribution b ;;
  cd <- add128 (b_cd prev) c ;;
  _ <- guard (b_cd b =? cd) 714 ;;
  if (0 <? b_version b) && (minidag_ancestors cfg <? b_height b) then
    old <- of_opt (get_block n (staked_hash b)) 715 ;;
    _ <- guard (b_next_delegate_id old =? b_delegate_id b) 716 ;;
    if negb (b_sig_blank b) then
      _ <- guard (negb (staked (ldg n) =? 0)) 717 ;;
      d <- of_opt (get_dlg (ldg n) (b_delegate_id b)) 718 ;;
      guard ((b_sig_key b =? d_owner d) && negb (b_sig_key b =? 0) && (b_sig_msg b =? staked_hash b)) 719
    else Ok tt
  else Ok tt.

(* ---------------- AddBlock ---------------- *)
Definition lottery_of (n : node) (h : N) : N :=
  match get_block n h with Some p => b_lottery p | None => 0 end.

Definition apply_block_node (n : node) (b : block) : res node :=
  l <- apply_block cfg genesis_addr (ldg n) (to_lblock b (lottery_of n (prev_hash b))) (top_h n) ;;
  Ok (set_ldg n l).
Definition remove_block_node (n : node) (b : block) : res node :=
  l <- remove_block cfg genesis_addr (ldg n) (to_lblock b (lottery_of n (prev_hash b))) (top_h n) ;;
  Ok (set_ldg n l).

Definition add_mainchain_block (n : node) (b : block) : res node :=
  n1 <- apply_block_node n b ;;
  let n2 := set_top n1 (b_hash b) (b_height b) (b_cd b) in
  let n3 := set_blocks n2 (nset (blocks n2) (b_hash b) b) in
  Ok (set_topo n3 (nset (topo n3) (b_height b) (b_hash b))).

(* the tip selection loop of CheckReorgs, over the tips in list order.
   Go iterates a map (random order): when several alternative tips share the maximal cumulative difficulty
   the implementation's choice is not determined; [ambiguous] reports that situation. *)
Definition best_tip (n : node) : tip * bool :=
  fold_left (fun (acc : tip * bool) (kv : N * tip) =>
               let '(best, amb) := acc in
               let v := snd kv in
               if t_cd best <? t_cd v then (v, false)
               else if (t_cd v =? t_cd best) && negb (t_hash v =? t_hash best) && negb (t_hash best =? top n)
                    then (best, true) else (best, amb))
            (tips n) (mktip (top n) (top_h n) (top_cd n), false).

(* step 1: walk the alternative chain down to the block that is on the main chain *)
Fixpoint reorg_collect (fuel : nat) (n : node) (cb : block) (acc : list block) : res (N * list block) :=
  match fuel with
  | O => Err 799
  | S f =>
      let ch := prev_hash cb in
      cb' <- of_opt (get_block n ch) 721 ;;
      if match get_topo n (b_height cb') with Some th => th =? ch | None => false end
      then Ok (ch, acc)
      else _ <- guard (negb (b_height cb' =? 0)) 722 ;;
           reorg_collect f n cb' (acc ++ [cb'])
  end.

(* step 2: disconnect main-chain blocks down to the common block *)
Fixpoint reorg_disconnect (fuel : nat) (n : node) (nhash common : N) (last_height : N) : res node :=
  match fuel with
  | O => Err 798
  | S f =>
      if nhash =? common then Ok n
      else
        _ <- guard (negb (last_height =? 0)) 731 ;;
        nb <- of_opt (get_block n nhash) 732 ;;
        let n1 := set_topo n (ndel (topo n) (b_height nb)) in
        n2 <- remove_block_node (set_top n1 (top n1) (b_height nb) (top_cd n1)) nb ;;
        reorg_disconnect f (set_top n2 (top n2) (wsub (b_height nb) 1) (top_cd n2)) (prev_hash nb) common (b_height nb)
  end.

(* step 3: connect the alternative blocks, lowest first ([bs] is highest first) *)
Fixpoint reorg_connect (n : node) (bs_low_first : list block) : res node :=
  match bs_low_first with
  | [] => Ok n
  | b :: r =>
      let n1 := set_topo n (nset (topo n) (b_height b) (b_hash b)) in
      prev <- of_opt (get_block n1 (prev_hash b)) 741 ;;
      let n1 := set_top n1 (top n1) (b_height prev) (top_cd n1) in   (* stats.TopHeight follows the chain *)
      _ <- check_block n1 b prev ;;
      n2 <- apply_block_node n1 b ;;
      reorg_connect n2 r
  end.

Definition check_reorgs (n : node) : res (node * bool) :=
  let '(alt, amb) := best_tip n in
  if t_hash alt =? top n then Ok (n, amb)
  else
    cb <- of_opt (get_block n (t_hash alt)) 751 ;;
    let fuel := S (N.to_nat (b_height cb)) in
    r <- reorg_collect fuel n cb [cb] ;;
    let '(common, hashes) := r in
    n1 <- (if top n =? common then Ok n
           else
             tb <- of_opt (get_block n (top n)) 752 ;;
             reorg_disconnect (S (N.to_nat (top_h n))) n (top n) common (b_height tb)) ;;
    n2 <- reorg_connect n1 (rev hashes) ;;
    let tips1 := ndel (tips n2) (t_hash alt) in
    let tips2 := nset tips1 (top n) (mktip (top n) (top_h n) (top_cd n)) in
    Ok (set_top (set_tips n2 tips2) (t_hash alt) (t_height alt) (t_cd alt), amb).

Definition add_altchain_block (n : node) (b : block) : res (node * bool) :=
  let tips' :=
    match nget (tips n) (prev_hash b) with
    | Some t => if t_hash t =? prev_hash b
                then nset (ndel (tips n) (prev_hash b)) (b_hash b) (mktip (b_hash b) (b_height b) (b_cd b))
                else nset (tips n) (b_hash b) (mktip (b_hash b) (b_height b) (b_cd b))
    | None => nset (tips n) (b_hash b) (mktip (b_hash b) (b_height b) (b_cd b))
    end in
  let n1 := set_blocks (set_tips n tips') (nset (blocks n) (b_hash b) b) in
  check_reorgs n1.

Definition add_block (n : node) (b : block) : res (node * bool) :=
  _ <- guard (match get_block n (b_hash b) with Some _ => false | None => true end) 761 ;;
  prev <- of_opt (get_block n (prev_hash b)) 762 ;;
  _ <- check_block n b prev ;;
  if prev_hash b =? top n then n1 <- add_mainchain_block n b ;; Ok (n1, false)
  else add_altchain_block n b.

(* one delivery: PrevalidateBlock, then executePostprocess (one DB.Update) *)
Inductive outcome := Accepted | Rejected (code : N) | Crashed (code : N).

Definition deliver (n : node) (b : block) (now : N) : node * outcome * bool :=
  match prevalidate_block b now with
  | Err c => (n, Rejected c, false)
  | Panic c => (n, Crashed c, false)
  | Ok _ =>
      match add_block n b with
      | Ok (n1, amb) => (n1, Accepted, amb)
      | Err c => (n, Rejected c, false)
      | Panic c => (n, Crashed c, false)
      end
  end.

(* genesis (addGenesis): height 0, version 0, difficulty 1, reward applied *)
Definition genesis_block (ghash glottery : N) (gcommit : commit) : block :=
  mkblock ghash 0 0 (genesis_timestamp cfg) [0; 0; 0] [] genesis_addr 0 0 true 0 0 1 1 [] [] 0 glottery gcommit false.

Definition node0 (g : block) : res node :=
  let n := mknode [(b_hash g, g)] [(0, b_hash g)] (b_hash g) 0 (b_diff g) [] ledger0 in
  apply_block_node n g.

End WithConfig.
