(* Model of checkpoints/checkpoints.go, checkpoints/checkpoints_testnet.go and of the proof-of-work / checkpoint
   branch at the end of blockchain.PrevalidateBlock (blockchain/bc-block.go).  Executable definitions only.

   The two source files of package checkpoints are selected by build tags.  The generated configuration tells them
   apart by cp_bin_len: the checkpoint-free file (testnet, unittest) has bin = []byte{} (cp_bin_len = 0,
   cp_interval = 1, cp_max = 0) and constant functions; the mainnet file embeds checkpoints.bin.
   cp_interval and cp_max are the run-time values of CheckpointInterval and MaxCheckpoint after init(). *)
From Coq Require Import Bool.
From Virel Require Export Lib.Config Lib.U64.
Open Scope bool_scope.
Open Scope N_scope.

Section Checkpoints.
Variable cfg : config.

Definition cp_overhead : N := 4.

(* which source file was compiled *)
Definition cp_free_file : bool := cp_bin_len cfg =? 0.

(* init() of checkpoints.go: what CheckpointInterval and MaxCheckpoint must be, given the embedded data *)
Definition init_interval : N := cp_bin_header cfg.
Definition init_max : N := (cp_bin_len cfg - cp_overhead) / 32.

(* IsCheckpoint *)
Definition is_checkpoint (h : N) : bool :=
  if cp_free_file then false
  else if cp_max cfg =? 0 then false
  else negb (h =? 0) && (h mod cp_interval cfg =? 0) && (h / cp_interval cfg <=? cp_max cfg).

(* IsSecured *)
Definition is_secured (h : N) : bool :=
  if cp_free_file then false
  else if cp_max cfg =? 0 then false
  else h <=? wmul (cp_max cfg) (cp_interval cfg).

(* GetCheckpoint: the slot of the table that is returned, or a run-time panic (slice bounds / division by zero).
   Go: index := height/CheckpointInterval - 1; startPos := 4 + index*32; [32]byte(bin[startPos : startPos+32]),
   all in uint64; the slice expression panics unless startPos <= startPos+32 <= len(bin). *)
Inductive gc_result := GcSlot (i : N) | GcZero | GcPanic.

Definition get_checkpoint (h : N) : gc_result :=
  if cp_free_file then GcZero
  else if cp_interval cfg =? 0 then GcPanic
  else
    let index := wsub (h / cp_interval cfg) 1 in
    let start := wadd cp_overhead (wmul index 32) in
    let stop := wadd start 32 in
    if (start <=? stop) && (stop <=? cp_bin_len cfg) then GcSlot index else GcPanic.

(* Cheaper form used when evaluating the exhaustive sweep (wsub costs a 65-bit division per call under vm_compute):
   when no uint64 operation can wrap the result is computed directly, otherwise by the transcription itself.
   Proofs/Checkpoints.v proves it equal to [get_checkpoint] for every height (get_checkpoint_fast_eq). *)
Definition get_checkpoint_fast (h : N) : gc_result :=
  if cp_free_file then GcZero
  else if cp_interval cfg =? 0 then GcPanic
  else
    let q := h / cp_interval cfg in
    if (1 <=? q) && (q <? 288230376151711744) (* 2^58 *) then
      (if cp_overhead + (q - 1) * 32 + 32 <=? cp_bin_len cfg then GcSlot (q - 1) else GcPanic)
    else get_checkpoint h.

(* The last statement of PrevalidateBlock.  A block is abstracted to its height, the validity of its proof of
   work (and of its side blocks' work) and its hash; [table i] is the i-th 32-byte entry of the embedded data,
   [zero] the all-zero hash. *)
Inductive pv_result := PvAccept | PvReject | PvPanic.

Section Prevalidate.
Variable H : Type.
Variable Heqb : H -> H -> bool.
Variable table : N -> H.
Variable zero : H.

Definition prevalidate_tail (h : N) (pow_ok : bool) (hash : H) : pv_result :=
  if negb (is_secured h) then (if pow_ok then PvAccept else PvReject)
  else if is_checkpoint h then
    match get_checkpoint h with
    | GcSlot i => if Heqb hash (table i) then PvAccept else PvReject
    | GcZero => if Heqb hash zero then PvAccept else PvReject
    | GcPanic => PvPanic
    end
  else PvAccept.
End Prevalidate.

(* ---- specification side: what the embedded data says, independent of the functions above ----
   create_checkpoints writes uint32(interval) followed by the hashes of the blocks at heights
   interval, 2*interval, ..., so entry i (from 0) pins height (i+1)*interval. *)
Definition spec_count : N := (cp_bin_len cfg - cp_overhead) / 32.
Definition spec_last : N := cp_bin_header cfg * spec_count.
Definition spec_cp_height (h : N) : bool :=
  (1 <=? spec_count) && (1 <=? cp_bin_header cfg) &&
  (h mod cp_bin_header cfg =? 0) && (1 <=? h / cp_bin_header cfg) && (h / cp_bin_header cfg <=? spec_count).
Definition spec_pinned (h : N) : bool := (1 <=? spec_count) && (h <=? spec_last).

End Checkpoints.
