(* Model of the DECISION logic of three JSON-RPC handlers of the node (cmd/virel-node/noderpc.go: get_block_by_height,
   get_block_by_hash, get_transaction), on top of the node model: which of the handler's answers (success / which error)
   a request gets, and for a success the block or the (height, coinbase) pair the answer is built from.
   The handlers read three tables inside one DB.View:
     bc.GetBlock(txn, hash)     = get_block n hash            (Block index; error when there is no entry)
     bc.GetTopo(txn, height)    = get_topo n height           (Topo index: height -> hash; error when there is no entry)
     bc.GetTx(txn, txid, _)     = nget (txh (ldg n)) txid     (the 8-byte height in front of the stored transaction;
                                                               error when there is no entry)
   NOT modelled: the rest of a successful answer (rewards, outputs, signer - computed from the block / transaction
   alone), parameter decoding, and the later error of get_transaction "Invalid outputs in TX" (tx.TotalAmount() of the
   stored transaction).  The model's [txh] has an entry for the transactions that some main chain applied at some time;
   the implementation's Tx index also holds the transactions of the mempool and of stored blocks that were never
   connected (SetTx ... height 0): for those the model has no entry where the implementation has the entry "height 0".
   Executable definitions only. *)
From Virel Require Export Model.Node.
Open Scope N_scope.
Open Scope bool_scope.

(* ---- get_block_by_height: bc.GetBlockByHeight = GetTopo, then GetBlock; any error -> "block not found" (None) ---- *)
Definition rpc_block_by_height (n : node) (h : N) : option block :=
  match get_topo n h with
  | None => None                       (* "failed to get topo" *)
  | Some x => get_block n x            (* GetBlock(hash): its error is returned as it is *)
  end.

(* ---- get_block_by_hash ----
     bl, err = bc.GetBlock(txn, params.Hash);  if err != nil { return err }            -> "Block not found"
     topo, err := bc.GetTopo(txn, bl.Height);  if err != nil { return err }            -> "Block not found"
     hash = bl.Hash();  if topo != hash { return err_block_orphan }                    -> "block is orphan"
   (the comparison is with the hash of the block that was read, not with the parameter) *)
Inductive rpc_block_answer :=
| RpcBlockFound (b : block)
| RpcBlockOrphan
| RpcBlockNotFound.

Definition rpc_block_by_hash (n : node) (x : N) : rpc_block_answer :=
  match get_block n x with
  | None => RpcBlockNotFound
  | Some bl =>
      match get_topo n (b_height bl) with
      | None => RpcBlockNotFound
      | Some t => if t =? b_hash bl then RpcBlockFound bl else RpcBlockOrphan
      end
  end.

(* ---- get_transaction ----
   first view:   tx, height, err = bc.GetTx(txn, params.Txid, stats.TopHeight)
   err == nil:   answer with Height: height, Coinbase: false
   err != nil:   the coinbase fallback, second view:
     bl, err = bc.GetBlock(txn, params.Txid);  if err != nil { return err }            -> "transaction not found"
     topoHash, err := bc.GetTopo(txn, bl.Height);  if err != nil { return err }        -> "transaction not found"
     if topoHash != params.Txid { return err_orphan }                                  -> "coinbase transaction is orphan"
     answer with Height: bl.Height, Coinbase: true
   (here the comparison is with the parameter) *)
Inductive rpc_tx_answer :=
| RpcTxFound (height : N) (coinbase : bool)
| RpcTxOrphan
| RpcTxNotFound.

Definition rpc_coinbase (n : node) (txid : N) : rpc_tx_answer :=
  match get_block n txid with
  | None => RpcTxNotFound
  | Some bl =>
      match get_topo n (b_height bl) with
      | None => RpcTxNotFound
      | Some t => if t =? txid then RpcTxFound (b_height bl) true else RpcTxOrphan
      end
  end.

Definition rpc_get_transaction (n : node) (txid : N) : rpc_tx_answer :=
  match nget (txh (ldg n)) txid with
  | Some h => RpcTxFound h false
  | None => rpc_coinbase n txid
  end.

(* ---- a DEFECTIVE variant of the fallback, kept for the refutation in Proofs/RpcHandlers.v ----
   the error of GetTopo is lost:  if topoHash, err := bc.GetTopo(txn, bl.Height); err == nil && topoHash != params.Txid
   { return err_orphan }: with no index entry at the block's height the handler goes on to the success answer *)
Definition rpc_coinbase_lost_error (n : node) (txid : N) : rpc_tx_answer :=
  match get_block n txid with
  | None => RpcTxNotFound
  | Some bl =>
      match get_topo n (b_height bl) with
      | None => RpcTxFound (b_height bl) true
      | Some t => if t =? txid then RpcTxFound (b_height bl) true else RpcTxOrphan
      end
  end.
