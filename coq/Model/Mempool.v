(* Model of the mempool and of the block template: blockchain/bc-txn.go (AddTransaction with mempool=true,
   validateMempoolTx - the second implementation of the transaction rules, which simulates the effect of the earlier
   mempool entries), blockchain/mining.go (GetBlockTemplate, stakeSigUsable), blockchain/bc-stats.go (Mempool, pruning of
   expired entries in Mempool.Serialize), blockchain/bc-p2p.go (packetTx, HandleStakeSignature), and the mempool
   maintenance of ApplyBlockToState / RemoveBlockFromState.  Line-by-line functional transcription with the code's quirks.
   The node of Model/Node.v is wrapped, not edited.  Executable definitions only.

   [legacy = true] transcribes validateMempoolTx / GetBlockTemplate as they were BEFORE the five repairs made while this
   property was built (findings R11a, R11b, R11c, R12, C09-twin-side-blocks of KNOWN_FINDINGS.json); [legacy = false] is the code as it is.
   Only [legacy = false] is compared with the implementation; the other variant is kept for the refutation theorems. *)
From Virel Require Export Model.Node.
Open Scope N_scope.
Open Scope bool_scope.

(* MempoolEntry *)
Record mentry := mkmentry {
  me_id : N; me_version : N; me_size : N; me_fee : N;
  me_expires : N;                       (* unix seconds *)
  me_signer : N;                        (* address of the signer *)
  me_inputs : list (N * N);             (* StateInputs: (amount, sender address) *)
  me_outputs : list (N * N)             (* (recipient address, amount) *)
}.

(* PacketStakeSignature as stored in the StakeSig index: symbolic signature = (signing key, signed block hash) *)
Record stakesig := mkstakesig { ss_delegate : N; ss_key : N; ss_msg : N }.

Record wnode := mkwnode {
  wn : node;
  mpool : list mentry;                  (* Mempool.Entries, in order *)
  sigs : list (N * stakesig);           (* StakeSig index: block hash -> stored signature *)
  txstore : list (N * tx)               (* Tx index: transaction id -> transaction *)
}.

Definition set_wn w v := mkwnode v (mpool w) (sigs w) (txstore w).
Definition set_mpool w v := mkwnode (wn w) v (sigs w) (txstore w).

Definition memN (x : N) (l : list N) : bool := existsb (N.eqb x) l.
Definition no_commit : commit := mkcommit 0 0 [] 0 0 false.

(* Mempool.Serialize keeps the entries with Expires >= now *)
Definition prune (now_s : N) (es : list mentry) : list mentry := filter (fun e => now_s <=? me_expires e) es.
(* Mempool.GetEntry / DeleteEntry (first match) *)
Definition has_entry (es : list mentry) (id : N) : bool := existsb (fun e => me_id e =? id) es.
Fixpoint del_entry (es : list mentry) (id : N) : list mentry :=
  match es with [] => [] | e :: r => if me_id e =? id then r else e :: del_entry r id end.

Section WithConfig.
Variable cfg : config.
Variable genesis_addr : N.
Variable team_key : N.
Variable legacy : bool.

(* ---------------- validateMempoolTx ---------------- *)
Definition load_state (l : ledger) (a : N) : acct := match get_state l a with Some s => s | None => acct0 end.

(* simulatedStates: one entry per affected address, loaded from the database (zero state when absent) *)
Fixpoint init_states (l : ledger) (addrs : list N) (m : list (N * acct)) : list (N * acct) :=
  match addrs with
  | [] => m
  | a :: r => init_states l r (match nget m a with Some _ => m | None => m ++ [(a, load_state l a)] end)
  end.

(* getOrLoadDelegate *)
Definition get_or_load (l : ledger) (sd : list (N * dlg)) (id : N) : option dlg :=
  match nget sd id with Some d => Some d | None => get_dlg l id end.

Record sim := mksim { s_states : list (N * acct); s_dlgs : list (N * dlg) }.

Fixpoint sim_inputs (m : list (N * acct)) (ins : list (N * N)) : res (list (N * acct)) :=
  match ins with
  | [] => Ok m
  | (amt, sender) :: r =>
      match nget m sender with
      | Some s => if bal s <? amt then Err 902
                  else sim_inputs (nset m sender (mkacct (bal s - amt) (nonce s) (inc s) (deleg s))) r
      | None => sim_inputs m r
      end
  end.

Fixpoint sim_outputs (m : list (N * acct)) (outs : list (N * N)) : list (N * acct) :=
  match outs with
  | [] => m
  | (rcpt, amt) :: r =>
      match nget m rcpt with
      | Some s => sim_outputs (nset m rcpt (mkacct (wadd (bal s) amt) (nonce s) (wadd (inc s) 1) (deleg s))) r
      | None => sim_outputs m r
      end
  end.

(* the unlock height the simulation gives to a fund touched by a pending stake *)
Definition sim_unlock (nextheight : N) : N :=
  if legacy then wadd nextheight (unlock_time cfg) else wadd (wsub nextheight 1) (unlock_time cfg).

(* one previous entry; [signer] is the signer address of the transaction being validated *)
Definition sim_entry (l : ledger) (store : list (N * tx)) (txid signer nextheight : N) (st : sim) (e : mentry) : res sim :=
  _ <- guard (negb (me_id e =? txid)) 901 ;;
  let m0 := s_states st in
  let m1 := match nget m0 (me_signer e) with
            | Some s => nset m0 (me_signer e) (mkacct (bal s) (wadd (nonce s) 1) (inc s) (deleg s))
            | None => m0 end in
  m2 <- sim_inputs m1 (me_inputs e) ;;
  let m3 := sim_outputs m2 (me_outputs e) in
  if me_version e =? 2 then
    et <- of_opt (nget store (me_id e)) 903 ;;
    match tx_data et with
    | TRegister _ name id => Ok (mksim m3 (nset (s_dlgs st) id (mkdlg id 0 name [])))
    | _ => Panic 904                                             (* failed type assertion *)
    end
  else if me_version e =? 4 then
    et <- of_opt (nget store (me_id e)) 903 ;;
    match tx_data et with
    | TStake a id pu =>
        d <- of_opt (get_or_load l (s_dlgs st) id) 905 ;;
        funds' <- (match find_fund (d_funds d) (me_signer e) with
                   | Some f =>
                       _ <- guard (f_unlock f =? pu) 906 ;;
                       amt' <- of_opt (safe_add (f_amt f) a) 907 ;;
                       Ok (upd_fund (d_funds d) (me_signer e) (Some (mkfund (me_signer e) amt' (sim_unlock nextheight))))
                   | None =>
                       Ok (d_funds d ++ [mkfund (if legacy then signer else me_signer e) a (sim_unlock nextheight)])
                   end) ;;
        Ok (mksim m3 (nset (s_dlgs st) id (mkdlg (d_id d) (d_owner d) (d_name d) funds')))
    | _ => Panic 904
    end
  else if me_version e =? 5 then
    et <- of_opt (nget store (me_id e)) 903 ;;
    match tx_data et with
    | TUnstake a id =>
        d <- of_opt (get_or_load l (s_dlgs st) id) 908 ;;
        f <- of_opt (find_fund (d_funds d) (me_signer e)) 910 ;;
        _ <- guard (negb (f_amt f <? a)) 909 ;;
        (* the emptied fund stays in the simulated delegate *)
        let funds' := upd_fund (d_funds d) (me_signer e) (Some (mkfund (f_owner f) (f_amt f - a) (f_unlock f))) in
        Ok (mksim m3 (nset (s_dlgs st) id (mkdlg (d_id d) (d_owner d) (d_name d) funds')))
    | _ => Panic 904
    end
  else if me_version e =? 3 then
    et <- of_opt (nget store (me_id e)) 903 ;;
    match tx_data et with
    | TSetDelegate new prev =>
        if legacy then
          (* uses the state of the CURRENT signer *)
          match nget m3 signer with
          | Some s => _ <- guard (prev =? deleg s) 911 ;;
                      Ok (mksim (nset m3 signer (mkacct (bal s) (nonce s) (inc s) new)) (s_dlgs st))
          | None => Panic 912                                    (* nil dereference *)
          end
        else
          match nget m3 (me_signer e) with
          | Some s => _ <- guard (prev =? deleg s) 911 ;;
                      Ok (mksim (nset m3 (me_signer e) (mkacct (bal s) (nonce s) (inc s) new)) (s_dlgs st))
          | None => Ok (mksim m3 (s_dlgs st))
          end
    | _ => Panic 904
    end
  else Ok (mksim m3 (s_dlgs st)).

Fixpoint sim_entries (l : ledger) (store : list (N * tx)) (txid signer nextheight : N) (st : sim) (es : list mentry) : res sim :=
  match es with
  | [] => Ok st
  | e :: r => st' <- sim_entry l store txid signer nextheight st e ;; sim_entries l store txid signer nextheight st' r
  end.

Definition sum_fst (l : list (N * N)) : N := fold_left (fun s x => wadd s (fst x)) l 0.
Definition sum_souts (l : list sout) : N := fold_left (fun s o => wadd s (o_amt o)) l 0.

Fixpoint check_inputs (m : list (N * acct)) (ins : list (N * N)) : res unit :=
  match ins with
  | [] => Ok tt
  | (amt, sender) :: r =>
      s <- of_opt (nget m sender) 913 ;;
      _ <- guard (negb (bal s <? amt)) 914 ;;
      check_inputs m r
  end.

(* the checks on the transaction itself, against the simulated states and delegates *)
Definition check_current (l : ledger) (t : tx) (signer nextheight : N) (st : sim) : res unit :=
  s <- of_opt (nget (s_states st) signer) 912 ;;
  _ <- guard (tx_nonce t =? wadd (nonce s) 1) 912 ;;
  _ <- check_inputs (s_states st) (state_inputs cfg t signer) ;;
  if tx_version t =? 4 then
    match tx_data t with
    | TStake a id pu =>
        d <- of_opt (get_or_load l (s_dlgs st) id) 915 ;;
        _ <- (match find_fund (d_funds d) signer with
              | Some f => guard (f_unlock f =? pu) 916
              | None => Ok tt end) ;;
        guard (deleg s =? id) 917
    | _ => Panic 904
    end
  else if tx_version t =? 5 then
    match tx_data t with
    | TUnstake a id =>
        d <- of_opt (get_or_load l (s_dlgs st) id) 918 ;;
        _ <- guard (deleg s =? id) 919 ;;
        let '(staked_amt, unlock_h) := match find_fund (d_funds d) signer with
                                       | Some f => (f_amt f, f_unlock f) | None => (0, 0) end in
        _ <- guard (negb ((staked_amt =? 0) && (unlock_h =? 0))) 920 ;;
        _ <- guard (if legacy then negb (nextheight <? unlock_h) else unlock_h <? nextheight) 921 ;;
        guard (negb (staked_amt <? a)) 922
    | _ => Panic 904
    end
  else if tx_version t =? 2 then
    match tx_data t with
    | TRegister _ _ id => guard (match get_or_load l (s_dlgs st) id with Some _ => false | None => true end) 923
    | _ => Panic 904
    end
  else if tx_version t =? 3 then
    match tx_data t with
    | TSetDelegate new prev =>
        _ <- guard (prev =? deleg s) 924 ;;
        _ <- guard (match get_or_load l (s_dlgs st) prev with
                    | Some d => match find_fund (d_funds d) signer with Some _ => false | None => true end
                    | None => true end) 925 ;;
        guard (match get_or_load l (s_dlgs st) new with Some _ => true | None => false end) 926
    | _ => Panic 904
    end
  else Ok tt.

Definition affected (t : tx) (signer : N) (outs : list sout) : list N :=
  signer :: map snd (state_inputs cfg t signer) ++ map o_rcpt outs.

Definition validate_mempool_tx (l : ledger) (store : list (N * tx)) (t : tx) (prev : list mentry) (nextheight : N) : res unit :=
  _ <- guard (wmul (fee_per_byte_v2 cfg) (tx_vsize cfg t) <=? tx_fee t) 931 ;;
  let signer := addr_of_key (tx_signer t) in
  _ <- of_opt (tx_total cfg t) 932 ;;
  let ins := state_inputs cfg t signer in
  outs <- state_outputs cfg t signer ;;
  _ <- guard (sum_fst ins =? wadd (sum_souts outs) (tx_fee t)) 933 ;;
  let st0 := mksim (init_states l (affected t signer outs) []) [] in
  st <- sim_entries l store (tx_id t) signer nextheight st0 prev ;;
  check_current l t signer nextheight st.

(* ---------------- AddTransaction (mempool = true) and packetTx ---------------- *)
Definition entry_of_tx (t : tx) (expires : N) : res mentry :=
  let signer := addr_of_key (tx_signer t) in
  outs <- state_outputs cfg t signer ;;
  Ok (mkmentry (tx_id t) (tx_version t) (tx_vsize cfg t) (tx_fee t) expires signer (state_inputs cfg t signer)
               (map (fun o => (o_rcpt o, o_amt o)) outs)).

(* returns the new state and whether the transaction entered the mempool *)
Definition add_transaction (w : wnode) (t : tx) (height now_s expires : N) : res (wnode * bool) :=
  match nget (txstore w) (tx_id t) with
  | Some _ => Ok (w, false)                                      (* "transaction is already in database" *)
  | None =>
      _ <- validate_mempool_tx (ldg (wn w)) (txstore w) t (mpool w) height ;;
      _ <- guard (negb (has_entry (mpool w) (tx_id t))) 941 ;;
      e <- entry_of_tx t expires ;;
      Ok (mkwnode (wn w) (prune now_s (mpool w ++ [e])) (sigs w) (nset (txstore w) (tx_id t) t), true)
  end.

(* packetTx: Prevalidate at TopHeight+1, then AddTransaction at that height.  Before the first hard fork the packet is
   decoded without a version byte: not modelled (code 940). *)
Definition packet_tx (w : wnode) (t : tx) (now_s expires : N) : res (wnode * bool) :=
  if top_h (wn w) <? hf_v2 cfg then Err 940
  else
    let h := wadd (top_h (wn w)) 1 in
    _ <- prevalidate_tx cfg team_key t h ;;
    add_transaction w t h now_s expires.

(* ---------------- HandleStakeSignature ---------------- *)
Definition handle_stake_sig (w : wnode) (h did key msg : N) : res wnode :=
  _ <- guard (match nget (sigs w) h with Some _ => false | None => true end) 961 ;;
  b <- of_opt (get_block (wn w) h) 962 ;;
  _ <- guard (b_next_delegate_id b =? did) 963 ;;
  d <- of_opt (get_dlg (ldg (wn w)) did) 964 ;;
  _ <- guard ((key =? d_owner d) && negb (key =? 0) && (msg =? h)) 965 ;;
  Ok (mkwnode (wn w) (mpool w) (nset (sigs w) h (mkstakesig did key msg)) (txstore w)).

(* ---------------- GetBlockTemplate ---------------- *)
Fixpoint index_of (x : N) (l : list N) (i : nat) : option nat :=
  match l with [] => None | y :: r => if x =? y then Some i else index_of x r (S i) end.
(* Ancestors.FindCommon *)
Fixpoint find_common (a b : list N) : option nat :=
  match a with
  | [] => None
  | x :: r => match index_of x b O with Some i => Some i | None => find_common r b end
  end.

(* the "previous ancestors" loop of the template: None = a block lookup failed, Some true = already included *)
Fixpoint tpl_side_in_ancestors (n : node) (s : commit) (ancs : list N) : option bool :=
  match ancs with
  | [] => Some false
  | a :: r =>
      match get_block n a with
      | None => None
      | Some ab => if commit_in_block s ab then Some true
                   else if b_height ab =? 0 then Some false else tpl_side_in_ancestors n s r
      end
  end.

Definition tip_usable (n : node) (prev : block) (height ts diff : N) (anc : list N) (v : tip) : res (option commit) :=
  if (height <=? t_height v) || (t_height v <? wsub (wsub height (minidag_ancestors cfg)) 1) then Ok None
  else
    match get_block n (t_hash v) with
    | None => Ok None
    | Some tipb =>
        if negb (seedhash_id cfg (b_ts tipb) =? seedhash_id cfg ts) then Ok None
        else
          x <- mul64 diff 2 ;;
          if b_diff tipb <? x / 3 then Ok None
          else
            match find_common anc (b_anc tipb) with
            | None => Ok None
            | Some _ =>
                let side := b_commit tipb in
                if commit_in_block side prev then Ok None
                else if 0 <? b_height prev then
                  match tpl_side_in_ancestors n side (tl anc) with
                  | Some false => Ok (Some side)
                  | _ => Ok None
                  end
                else Ok (Some side)
            end
    end.

(* a tip that shares base hash and nonces with a side block chosen already is skipped (not before the repair) *)
Definition dup_of_chosen (acc : list commit) (s : commit) : bool :=
  if legacy then false else existsb (fun c => cm_dup c =? cm_dup s) acc.

(* the loop over stats.Tips, here in list order (Go iterates a map: any order); [cap] = MAX_SIDE_BLOCKS *)
Fixpoint select_sides (n : node) (prev : block) (height ts diff : N) (anc : list N) (cap : N) (tps : list (N * tip))
         (acc : list commit) : res (list commit) :=
  match tps with
  | [] => Ok acc
  | (_, v) :: r =>
      if N.of_nat (length acc) =? cap then Ok acc
      else
        o <- tip_usable n prev height ts diff anc v ;;
        select_sides n prev height ts diff anc cap r
                     (match o with Some s => if dup_of_chosen acc s then acc else acc ++ [s] | None => acc end)
  end.

(* the transaction selection loop *)
Fixpoint select_txs (l : ledger) (store : list (N * tx)) (height : N) (es : list mentry) (totsize : N)
         (valid : list mentry) (txs : list tx) : res (list mentry * list tx) :=
  match es with
  | [] => Ok (valid, txs)
  | e :: r =>
      if max_block_size cfg <? wadd totsize (me_size e) then Ok (valid, txs)            (* break *)
      else
        match nget store (me_id e) with
        | None => select_txs l store height r totsize valid txs                          (* GetTx failed: continue *)
        | Some t =>
            match validate_mempool_tx l store t valid height with
            | Ok _ => select_txs l store height r (wadd totsize (me_size e)) (valid ++ [e]) (txs ++ [t])
            | Err _ => select_txs l store height r totsize valid txs
            | Panic c => Panic c
            end
        end
  end.

(* stakeSigUsable *)
Fixpoint remaining_after (rem daddr : N) (ins : list (N * N)) : option N :=
  match ins with
  | [] => Some rem
  | (amt, sender) :: r => if sender =? daddr then (if rem <? amt then None else remaining_after (rem - amt) daddr r)
                          else remaining_after rem daddr r
  end.
Fixpoint remaining_entries (rem daddr : N) (es : list mentry) : option N :=
  match es with
  | [] => Some rem
  | e :: r => if me_version e =? 5 then
                match remaining_after rem daddr (me_inputs e) with
                | Some rem' => remaining_entries rem' daddr r
                | None => None end
              else remaining_entries rem daddr r
  end.
Definition stake_sig_usable (l : ledger) (did : N) (valid : list mentry) : res bool :=
  if legacy then Ok true
  else if staked l =? 0 then Ok false
  else match get_dlg l did with
       | None => Ok false
       | Some d =>
           if N.of_nat (length (d_funds d)) =? 0 then Ok false
           else total <- total_amount d ;;
                match remaining_entries total (delegate_addr did) valid with
                | Some rem => Ok (0 <? rem)
                | None => Ok false
                end
       end.

(* the template is a block whose hash-derived fields (hash, proof-of-work values, lottery value, own commitment) are
   still open: they are zero here *)
Definition get_block_template (w : wnode) (rcpt now now_s : N) : res (block * wnode) :=
  let n := wn w in
  prev <- of_opt (get_block n (top n)) 951 ;;
  let height := wadd (top_h n) 1 in
  let version := if hf_v3 cfg <=? height then 1 else 0 in
  let ts := N.max (wadd now 1) (b_ts prev) in
  let anc := [top n; anc_nth (b_anc prev) 0; anc_nth (b_anc prev) 1] in
  diff <- get_next_difficulty cfg n prev ;;
  sides <- select_sides n prev height ts diff anc (max_side_blocks cfg) (tips n) [] ;;
  sel <- select_txs (ldg n) (txstore w) height (mpool w) 0 [] [] ;;
  let '(valid, txs) := sel in
  let mp' := if N.of_nat (length (mpool w)) =? N.of_nat (length valid) then mpool w else prune now_s valid in
  let mk did ndid (sg : option stakesig) cd :=
    mkblock 0 version height ts anc sides rcpt did ndid
            (match sg with Some _ => false | None => true end)
            (match sg with Some s => ss_key s | None => 0 end)
            (match sg with Some s => ss_msg s | None => 0 end)
            diff cd txs [] 0 0 no_commit false in
  c0 <- contribution (mk 0 0 None 0) ;;
  cd0 <- add128 (top_cd n) c0 ;;
  r <- (if 0 <? version then
          let sh := anc_nth anc 2 in
          r1 <- (match nget (sigs w) sh with
                 | Some s =>
                     ok <- stake_sig_usable (ldg n) (ss_delegate s) valid ;;
                     if ok then
                       c1 <- contribution (mk (ss_delegate s) 0 (Some s) 0) ;;
                       cd1 <- add128 (top_cd n) c1 ;;
                       Ok (ss_delegate s, Some s, cd1)
                     else Ok (0, None, cd0)
                 | None => Ok (0, None, cd0)
                 end) ;;
          let '(did, sg, cd) := r1 in
          let did' := if did =? 0 then match get_block n sh with Some sb => b_next_delegate_id sb | None => 0 end else did in
          nd <- get_staker (ldg n) (lottery_of n (top n)) ;;
          Ok (did', nd, sg, cd)
        else Ok (0, 0, None, cd0)) ;;
  let '(did, nd, sg, cd) := r in
  Ok (mk did nd sg cd, set_mpool w mp').

(* ---------------- deliveries: mempool maintenance of ApplyBlockToState / RemoveBlockFromState ---------------- *)
(* blocks of [src]'s main chain, from hash [h] downwards, that are not on [other]'s main chain *)
Fixpoint off_chain (fuel : nat) (src other : node) (h : N) : list block :=
  match fuel with
  | O => []
  | S f =>
      match get_block src h with
      | None => []
      | Some bl =>
          if match get_topo other (b_height bl) with Some x => x =? h | None => false end then []
          else bl :: off_chain f src other (prev_hash bl)
      end
  end.

(* RemoveBlockFromState: the block's transactions come back (when absent), at the end, in block order *)
Fixpoint readd (mp : list mentry) (txs : list tx) (expires : N) : res (list mentry) :=
  match txs with
  | [] => Ok mp
  | t :: r => if has_entry mp (tx_id t) then readd mp r expires
              else e <- entry_of_tx t expires ;; readd (mp ++ [e]) r expires
  end.
Definition mp_disconnect (mp : list mentry) (b : block) (now_s exp : N) : res (list mentry) :=
  match b_txs b with
  | [] => Ok mp
  | _ => mp' <- readd mp (b_txs b) (now_s + exp) ;; Ok (prune now_s mp')
  end.
(* ApplyBlockToState: the block's transactions leave; the mempool is written back in any case *)
Definition mp_connect (mp : list mentry) (b : block) (now_s : N) : list mentry :=
  prune now_s (fold_left (fun m t => del_entry m (tx_id t)) (b_txs b) mp).

Fixpoint mp_disconnect_all (mp : list mentry) (bs : list block) (now_s exp : N) : res (list mentry) :=
  match bs with [] => Ok mp | b :: r => mp' <- mp_disconnect mp b now_s exp ;; mp_disconnect_all mp' r now_s exp end.

Definition store_txs (store : list (N * tx)) (txs : list tx) : list (N * tx) :=
  fold_left (fun s t => match nget s (tx_id t) with Some _ => s | None => nset s (tx_id t) t end) txs store.

(* one BLOCK packet: PrevalidateBlock, then one DB.Update (AddTransaction(mempool=false) of its transactions, AddBlock).
   [exp] = MEMPOOL_EXPIRATION in seconds *)
Definition wdeliver (w : wnode) (b : block) (now now_s exp : N) : wnode * outcome * bool :=
  let n := wn w in
  let '(n1, out, amb) := deliver cfg genesis_addr team_key n b now in
  match out with
  | Accepted =>
      let fuel := S (N.to_nat (N.max (top_h n) (top_h n1))) in
      let disc := off_chain fuel n n1 (top n) in                 (* highest first: order of disconnection *)
      let conn := rev (off_chain fuel n1 n (top n1)) in          (* lowest first: order of connection *)
      match mp_disconnect_all (mpool w) disc now_s exp with
      | Ok mp1 =>
          let mp2 := fold_left (fun m bl => mp_connect m bl now_s) conn mp1 in
          (mkwnode n1 mp2 (sigs w) (store_txs (txstore w) (b_txs b)), Accepted, amb)
      | Err c => (w, Rejected c, false)
      | Panic c => (w, Crashed c, false)
      end
  | _ => (w, out, amb)
  end.

Definition wnode0 (g : block) : res wnode :=
  n <- node0 cfg genesis_addr g ;; Ok (mkwnode n [] [] []).

End WithConfig.
