(* Model of the peer-to-peer transport: p2p/handshake.go, p2p/p2p.go (connectionMainHandling, onPacketReceived),
   p2p/connection.go (sendPacketLock, SendPacket), bitcrypto/encryption.go (Cipher).  Executable definitions only.

   THE PROTOCOL AS THE CODE IMPLEMENTS IT (read from the sources; compared with the running code by
   harness/cmd/p2pframe on every run)

   Node key.  p2p.Start draws ONE X25519 key pair per process (P2P.Privkey); its public key is the node's
     "peer id".  There is no per-connection key pair.
   Handshake (clear text, both sides: write own, then read the peer's; Handshake.WriteTo/ReadFrom):
        u32le length (= 43; a receiver refuses length > MAX_HANDSHAKE_SIZE = 1024)
        u64le Version | u8 P2PVersion | 32 bytes PeerID (X25519 public key) | u16le P2PPort   (no trailing bytes allowed)
     No network id, no nonce, no signature, no transcript hash.  Version is not looked at.  Checks, in this order:
        P2PVersion < 2                       -> error "outdated peer"
        another registered connection already has this PeerID -> error "duplicate ID"
        PeerID = own peer id                 -> error "connection to self"
        X25519(own private, PeerID) fails (low-order point, all-zero output) -> error
     (a second duplicate test after the key derivation needs two OTHER connections with that id; it cannot fire once
      the first test is in place and is not modelled.)
   Key.  key = BLAKE3-256( u64le NETWORK_ID  ||  X25519(own private, PeerID) ), used as AES-256-GCM key.
     The network id IS mixed in.  The same key is used for both directions, and every connection between the same
     two processes in the same network gets the same key (nothing connection-specific enters the derivation).
   Frame (sendPacketLock / read loop):
        u32le L | body[L]          L = len(body) truncated to uint32; NOT authenticated (no AAD);
                                   a receiver refuses L > 4 MiB = 4194304 (the sender does not check anything)
        body = nonce[12] | AES-GCM(key, nonce, plaintext, aad = empty)  = 12 + |plaintext| + 16 bytes
        plaintext = u16le wire type | data
     wire type = uint16(packet type) + 2 (wraps: packet types 65534/65535 become 0/1); wire type 0 is dropped
     silently, 1 is the internal peer-list packet (sent once by each side right after the key is set), >= 2 is
     delivered to P2P.PacketsIn as (wire type - 2, data).
   Nonce.  12 bytes from crypto/rand for every Encrypt.  No counter, no sequence number, no direction bit: the
     receiver keeps no state besides the key.  Consequently a whole valid frame is accepted again (replay), in any
     order, in the opposite direction (reflection) and in any other connection of the same two nodes.
   Failure.  Any error of the read loop (length > limit, short read, body < 12 bytes, GCM Open failure, plaintext
     shorter than 2 bytes) ends connectionMainHandling; the connection is closed and forgotten (Kick); nothing of
     the offending frame reaches PacketsIn.  A clean EOF at a frame boundary ends it without error.

   IDEALISATIONS.  AES-GCM is a term algebra ([Sealed k n m] opens under exactly (k, n), everything else fails),
   X25519 is a function [dh] and BLAKE3 a function [kdf]; what is assumed about them (commutativity, injectivity)
   are hypotheses of the Section of Proofs/Frame.v, visible in every theorem.  crypto/rand is a list of nonces
   handed to the sender.  A byte string that is not an intact ciphertext is opaque ([Opaque n]: n bytes). *)
From Coq Require Import NArith List Bool.
Import ListNotations.
Open Scope N_scope.

(* ------------------------------------------------------------------ byte level (no cryptography) *)

(* little-endian fixed width: binary.LittleEndian.PutUintXX(uintXX(v)) *)
Fixpoint le_encode (w : nat) (v : N) : list N :=
  match w with
  | O => []
  | S w' => v mod 256 :: le_encode w' (v / 256)
  end.

Fixpoint le_decode (bs : list N) : N :=
  match bs with
  | [] => 0
  | b :: r => b + 256 * le_decode r
  end.

Definition FRAME_LIMIT : N := 4194304.        (* 1024*1024*4, literal in the read loop *)
Definition HANDSHAKE_LIMIT : N := 1024.       (* MAX_HANDSHAKE_SIZE *)
Definition NONCE_SIZE : N := 12.
Definition TAG_SIZE : N := 16.
Definition MIN_P2P_VERSION : N := 2.

Definition blen {A} (l : list A) : N := N.of_nat (length l).

(* frame header *)
Definition hdr_encode (len : N) : list N := le_encode 4 len.   (* uint32(len) *)
Inductive hdr_result := HLen (n : N) | HTooBig (n : N).
Definition hdr_decode (bs : list N) : hdr_result :=
  let v := le_decode bs in if v <=? FRAME_LIMIT then HLen v else HTooBig v.

(* the framing layer alone, over plain bytes with opaque bodies *)
Definition bframe (body : list N) : list N := hdr_encode (blen body) ++ body.

Inductive bparse_end := BEof | BShortHeader | BTooBig (n : N) | BShortBody | BFuel.

Fixpoint bparse (fuel : nat) (s : list N) : list (list N) * bparse_end :=
  match fuel with
  | O => ([], BFuel)
  | S f =>
    match s with
    | [] => ([], BEof)
    | _ =>
      if blen s <? 4 then ([], BShortHeader)
      else match hdr_decode (firstn 4 s) with
           | HTooBig n => ([], BTooBig n)
           | HLen n =>
             let r := skipn 4 s in
             if blen r <? n then ([], BShortBody)
             else let '(l, e) := bparse f (skipn (N.to_nat n) r) in (firstn (N.to_nat n) r :: l, e)
           end
    end
  end.

(* ---- several senders on one connection (byte level) ----
   Every sender of a connection (the Writer goroutine draining WriteChan, the peer-list goroutine started by
   connectionMainHandling, whoever calls sendPacketLock) seals under the connection lock and hands the frame to
   net.Conn.Write AFTER the lock is released.  The runtime serialises the Write calls of one connection as wholes (the
   write lock of the descriptor is held until the last byte of that call is out, however often the kernel takes only
   a part), so the byte stream the peer reads is the concatenation of the Write calls in the order in which they got
   the socket.  A schedule is that order: its elements name the sender whose next pending Write goes out (a sender
   with nothing pending is skipped).  The queues hold the pending Writes of every sender, oldest first. *)
Fixpoint pop_write {A} (i : nat) (queues : list (list A)) : option (A * list (list A)) :=
  match queues, i with
  | [], _ => None
  | [] :: _, O => None
  | (w :: q) :: r, O => Some (w, q :: r)
  | q :: r, S i' => match pop_write i' r with Some (w, r') => Some (w, q :: r') | None => None end
  end.

Fixpoint run_schedule {A} (sched : list nat) (queues : list (list A)) : list (nat * A) * list (list A) :=
  match sched with
  | [] => ([], queues)
  | i :: r =>
    match pop_write i queues with
    | Some (w, qs) => let '(out, rest) := run_schedule r qs in ((i, w) :: out, rest)
    | None => run_schedule r queues
    end
  end.

(* the Writes in the order they went out, and those of one sender among them *)
Definition scheduled {A} (sched : list nat) (queues : list (list A)) : list A := map snd (fst (run_schedule sched queues)).
Definition of_sender {A} (i : nat) (out : list (nat * A)) : list A :=
  map snd (filter (fun x => Nat.eqb (fst x) i) out).

(* sendPacketLock: ONE Write of length prefix ++ body *)
Definition writes_atomic (body : list N) : list (list N) := [bframe body].
(* the variant that is NOT the code: prefix and body in two Write calls *)
Definition writes_split (body : list N) : list (list N) := [hdr_encode (blen body); body].

(* the stream on the wire: senders = the bodies every sender emits, in its order; mode = how a body becomes Writes *)
Definition wire_bytes (mode : list N -> list (list N)) (sched : list nat) (senders : list (list (list N))) : list N :=
  concat (map snd (fst (run_schedule sched (map (fun bodies => concat (map mode bodies)) senders)))).

(* plaintext of a frame *)
Definition wire_type (ty : N) : N := (ty + 2) mod 65536.       (* uint16(p.Type) + 2 *)
Definition payload_encode (wt : N) (d : list N) : list N := le_encode 2 wt ++ d.
Definition payload_decode (m : list N) : option (N * list N) :=
  match m with
  | a :: b :: d => Some (a + 256 * b, d)
  | _ => None
  end.

(* handshake message; the peer id is 32 opaque bytes at this level *)
Record hello_bytes := { hb_version : N; hb_p2pver : N; hb_id : list N; hb_port : N }.
Definition hs_body (h : hello_bytes) : list N :=
  le_encode 8 (hb_version h) ++ le_encode 1 (hb_p2pver h) ++ hb_id h ++ le_encode 2 (hb_port h).
Definition hs_encode (h : hello_bytes) : list N := le_encode 4 (blen (hs_body h)) ++ hs_body h.

Inductive hs_parse := HsParsed (h : hello_bytes) | HsTooBig | HsShort | HsMalformed.
(* Handshake.ReadFrom on a complete input: 4 bytes length, then exactly that many bytes *)
Definition hs_decode (s : list N) : hs_parse :=
  if blen s <? 4 then HsShort
  else let l := le_decode (firstn 4 s) in
       if HANDSHAKE_LIMIT <? l then HsTooBig
       else let b := skipn 4 s in
            if blen b <? l then HsShort
            else let b := firstn (N.to_nat l) b in
                 if blen b =? 43 then
                   HsParsed {| hb_version := le_decode (firstn 8 b);
                               hb_p2pver := le_decode (firstn 1 (skipn 8 b));
                               hb_id := firstn 32 (skipn 9 b);
                               hb_port := le_decode (skipn 41 b) |}
                 else HsMalformed.

(* error codes of the symbolic receiver *)
Definition E_SHORT_HEADER : N := 1.    (* stream ends inside the 4 length bytes *)
Definition E_GARBAGE_HEADER : N := 2.  (* the 4 length bytes are taken out of ciphertext/junk *)
Definition E_LEN : N := 3.             (* length > FRAME_LIMIT *)
Definition E_SHORT_BODY : N := 4.      (* fewer bytes than announced follow (read error / timeout) *)
Definition E_OPEN : N := 5.            (* Cipher.Decrypt fails *)
Definition E_PAYLOAD : N := 6.         (* plaintext shorter than the 2 type bytes *)
Definition E_OUTDATED : N := 11.
Definition E_DUPLICATE : N := 12.
Definition E_SELF : N := 13.
Definition E_BADKEY : N := 14.

(* ------------------------------------------------------------------ symbolic level *)

Section Sym.
Context {sk pk sh key : Type}.
Variable pub : sk -> pk.                  (* X25519 public key of a private key *)
Variable dh : sk -> pk -> sh.             (* X25519 *)
Variable kdf : N -> sh -> key.            (* BLAKE3-256 (u64le netid || shared) *)
Variable key_eqb : key -> key -> bool.
Variable pk_eqb : pk -> pk -> bool.
Variable pk_valid : pk -> bool.           (* false: low-order point, ECDH returns an error *)

(* AEAD as a term algebra *)
Inductive ct := Sealed (k : key) (nonce : N) (m : list N) | Junk (bs : list N).

Definition aead_open (k : key) (nonce : N) (c : ct) : option (list N) :=
  match c with
  | Sealed k' n' m => if key_eqb k k' && (nonce =? n') then Some m else None
  | Junk _ => None
  end.

Definition ct_len (c : ct) : N :=
  match c with
  | Sealed _ _ m => blen m + TAG_SIZE
  | Junk bs => blen bs
  end.

(* what travels on the wire: clear bytes, opaque bytes (not an intact box: flipped, cut, random), or the
   12 nonce bytes immediately followed by a ciphertext, intact *)
Inductive chunk := Raw (bs : list N) | Opaque (n : N) | Box (wire_nonce : N) (c : ct).

Definition chunk_len (c : chunk) : N :=
  match c with
  | Raw bs => blen bs
  | Opaque n => n
  | Box _ c => NONCE_SIZE + ct_len c
  end.

Fixpoint avail (s : list chunk) : N :=
  match s with
  | [] => 0
  | c :: r => chunk_len c + avail r
  end.

(* Cipher.Encrypt with the nonce drawn by crypto/rand made explicit; Cipher.Decrypt on an intact box *)
Definition cipher_encrypt (k : key) (nonce : N) (m : list N) : chunk := Box nonce (Sealed k nonce m).
Definition cipher_decrypt (k : key) (c : chunk) : option (list N) :=
  match c with
  | Box n c => aead_open k n c
  | _ => None
  end.

Fixpoint drop_empty (s : list chunk) : list chunk :=
  match s with
  | Raw [] :: r => drop_empty r
  | Opaque 0 :: r => drop_empty r
  | _ => s
  end.

Inductive read_res := Got (x : list N) (rest : list chunk) | Short | Garbage.

(* io.ReadFull of n clear bytes *)
Fixpoint read_raw (s : list chunk) (n : nat) {struct s} : read_res :=
  match n with
  | O => Got [] s
  | S _ =>
    match s with
    | [] => Short
    | Raw bs :: r =>
        if Nat.leb n (length bs) then Got (firstn n bs) (Raw (skipn n bs) :: r)
        else match read_raw r (n - length bs) with
             | Got x rest => Got (bs ++ x) rest
             | e => e
             end
    | Opaque 0 :: r => read_raw r n
    | Opaque _ :: _ => Garbage
    | Box _ _ :: _ => Garbage
    end
  end.

Inductive body_res := BBox (n : N) (c : ct) (rest : list chunk) | BJunk | BShort.

(* io.ReadFull of len bytes: an intact box only if the len bytes are exactly one box *)
Definition read_body (len : N) (s : list chunk) : body_res :=
  let other := if len <=? avail s then BJunk else BShort in
  match drop_empty s with
  | Box n c :: r => if chunk_len (Box n c) =? len then BBox n c r else other
  | _ => other
  end.

Inductive step := SEof | SErr (e : N) | SPkt (wt : N) (data : list N) (rest : list chunk).

(* one iteration of the read loop of connectionMainHandling *)
Definition recv_step (k : key) (s : list chunk) : step :=
  match drop_empty s with
  | [] => SEof
  | s' =>
    match read_raw s' 4 with
    | Short => SErr E_SHORT_HEADER
    | Garbage => SErr E_GARBAGE_HEADER
    | Got hdr rest =>
      match hdr_decode hdr with
      | HTooBig _ => SErr E_LEN
      | HLen len =>
        match read_body len rest with
        | BShort => SErr E_SHORT_BODY
        | BJunk => SErr E_OPEN
        | BBox n c r =>
          match aead_open k n c with
          | None => SErr E_OPEN
          | Some m =>
            match payload_decode m with
            | None => SErr E_PAYLOAD
            | Some (wt, d) => SPkt wt d r
            end
          end
        end
      end
    end
  end.

Inductive rend := REof | RErr (e : N) | RFuel.

Fixpoint recv_loop (fuel : nat) (k : key) (s : list chunk) : list (N * list N) * rend :=
  match fuel with
  | O => ([], RFuel)
  | S f =>
    match recv_step k s with
    | SEof => ([], REof)
    | SErr e => ([], RErr e)
    | SPkt wt d r => let '(l, e) := recv_loop f k r in ((wt, d) :: l, e)
    end
  end.

(* every accepted frame consumes a Box chunk: length s + 1 iterations suffice (Proofs/Frame.v: recv_fuel_enough) *)
Definition recv (k : key) (s : list chunk) : list (N * list N) * rend := recv_loop (S (length s)) k s.

(* onPacketReceived: what reaches PacketsIn *)
Definition deliver (l : list (N * list N)) : list (N * list N) :=
  flat_map (fun p => if fst p <? 2 then [] else [(fst p - 2, snd p)]) l.

(* sendPacketLock *)
Definition seal_frame (k : key) (nonce : N) (wt : N) (d : list N) : list chunk :=
  let m := payload_encode wt d in
  [Raw (hdr_encode (NONCE_SIZE + blen m + TAG_SIZE)); cipher_encrypt k nonce m].

(* the length prefix sendPacketLock puts in front of a packet with |data| = dlen: nonce + type + data + tag *)
Definition frame_body_len (dlen : N) : N := NONCE_SIZE + (2 + dlen) + TAG_SIZE.

(* frames for a list of wire-level packets, nonces supplied by the environment *)
Fixpoint send_wire (k : key) (pkts : list (N * list N)) (nonces : list N) : list chunk :=
  match pkts, nonces with
  | (wt, d) :: ps, n :: ns => seal_frame k n wt d ++ send_wire k ps ns
  | _, _ => []
  end.

(* SendPacket: packet type -> wire type *)
Definition to_wire (p : N * list N) : N * list N := (wire_type (fst p), snd p).
Definition send (k : key) (pkts : list (N * list N)) (nonces : list N) : list chunk :=
  send_wire k (map to_wire pkts) nonces.

(* several senders (see run_schedule): what one sender emits for a packet handed to it together with the nonce
   crypto/rand gives it.  sendPacketLock: one Write of the whole frame; the variant: two Writes *)
Definition sym_frame (k : key) (x : (N * list N) * N) : list chunk :=
  seal_frame k (snd x) (wire_type (fst (fst x))) (snd (fst x)).
Definition sym_writes_atomic (k : key) (x : (N * list N) * N) : list (list chunk) := [sym_frame k x].
Definition sym_writes_split (k : key) (x : (N * list N) * N) : list (list chunk) :=
  match sym_frame k x with
  | h :: r => [[h]; r]
  | [] => []
  end.
Definition wire_chunks (mode : (N * list N) * N -> list (list chunk)) (sched : list nat)
    (senders : list (list ((N * list N) * N))) : list chunk :=
  concat (map snd (fst (run_schedule sched (map (fun q => concat (map mode q)) senders)))).

(* ---- handshake and connection state machine ---- *)

Record node := { nd_sk : sk; nd_net : N; nd_conns : list pk (* peer ids of the registered connections *) }.
Record hello := { h_version : N; h_p2pver : N; h_id : pk; h_port : N }.

Definition hello_of (n : node) (version p2pver : N) : hello :=
  {| h_version := version; h_p2pver := p2pver; h_id := pub (nd_sk n); h_port := 0 |}.

Inductive hs_result := HsKey (k : key) | HsErr (e : N).

(* connectionMainHandling between reading the peer's handshake and the read loop *)
Definition hs_accept (me : node) (h : hello) : hs_result :=
  if h_p2pver h <? MIN_P2P_VERSION then HsErr E_OUTDATED
  else if existsb (pk_eqb (h_id h)) (nd_conns me) then HsErr E_DUPLICATE
  else if pk_eqb (h_id h) (pub (nd_sk me)) then HsErr E_SELF
  else if negb (pk_valid (h_id h)) then HsErr E_BADKEY
  else HsKey (kdf (nd_net me) (dh (nd_sk me) (h_id h))).

Inductive cstate := CsHandshake | CsOpen (k : key) (peer : pk) | CsClosed (e : N).

Inductive event := EvHello (h : hello) | EvStream (s : list chunk).

(* the receiving side of one connection: state, packets delivered to PacketsIn so far *)
Definition conn_step (me : node) (st : cstate * list (N * list N)) (ev : event) : cstate * list (N * list N) :=
  let '(cs, out) := st in
  match cs, ev with
  | CsHandshake, EvHello h =>
      match hs_accept me h with
      | HsKey k => (CsOpen k (h_id h), out)
      | HsErr e => (CsClosed e, out)
      end
  | CsHandshake, EvStream _ => (CsClosed E_SHORT_HEADER, out)     (* not a handshake *)
  | CsOpen k p, EvStream s =>
      let '(l, e) := recv k s in
      (match e with RErr c => CsClosed c | _ => CsClosed 0 end, out ++ deliver l)
  | CsOpen k p, EvHello _ => (CsClosed E_GARBAGE_HEADER, out)
  | CsClosed e, _ => (CsClosed e, out)
  end.

(* whole life of the receiving side: handshake of the peer, then everything that arrives until the stream ends *)
Definition endpoint_recv (me : node) (h : hello) (s : list chunk) : list (N * list N) * cstate :=
  let '(cs, out) := conn_step me (conn_step me (CsHandshake, []) (EvHello h)) (EvStream s) in (out, cs).

(* the sending side: frames for the packets handed to SendPacket, if the handshake succeeded *)
Definition endpoint_send (me : node) (h : hello) (pkts : list (N * list N)) (nonces : list N) : option (list chunk) :=
  match hs_accept me h with
  | HsKey k => Some (send k pkts nonces)
  | HsErr _ => None
  end.

End Sym.

Arguments Junk {key} bs.
Arguments Raw {key} bs.
Arguments Opaque {key} n.
Arguments Got {key} x rest.
Arguments Short {key}.
Arguments Garbage {key}.
Arguments BJunk {key}.
Arguments BShort {key}.
Arguments SEof {key}.
Arguments SErr {key} e.
Arguments HsErr {key} e.
Arguments CsHandshake {pk key}.
Arguments CsClosed {pk key} e.

(* ------------------------------------------------------------------ the free instance
   Keys, secrets and identities as plain terms over node numbers: used to evaluate the model on the cases files, and
   to show that the hypotheses of Proofs/Frame.v are satisfiable (Props/C14.v: C14_hypotheses_satisfiable).
   Node numbers start at 1; identity 0 stands for a low-order point (X25519 refuses it). *)
Definition free_key : Type := (N * (N * N))%type.
Definition free_pub (a : N) : N := a.
Definition free_dh (a : N) (p : N) : N * N := (N.min a p, N.max a p).
Definition free_kdf (n : N) (s : N * N) : free_key := (n, s).
Definition free_key_eqb (a b : free_key) : bool :=
  (fst a =? fst b) && (fst (snd a) =? fst (snd b)) && (snd (snd a) =? snd (snd b)).
Definition free_pk_eqb : N -> N -> bool := N.eqb.
Definition free_pk_valid (p : N) : bool := negb (p =? 0).
