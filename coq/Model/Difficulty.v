(* Model of blockchain/difficulty.go (difficultyEMA, the arithmetic of GetNextDifficulty), of the proof-of-work
   target computation of block/block.go (ValidPowValue / ValidPowHash32: uint128.Max.Div(diff)), of the side block
   difficulty of blockchain/bc-block.go (Difficulty.Mul64(2).Div64(3)) and of util.GetTarget.
   Executable definitions only.  Transcribed from the code as it is, with uint64 wrap-around, int64 casts and the
   panics of util/uint128 explicit. *)
From Virel Require Export Lib.Config Lib.U64 Lib.U128.
Open Scope N_scope.

(* int64(x) for a uint64 x, and the wrap-around of an int64 result *)
Definition to_int64 (x : N) : Z := if x <? two63 then Z.of_N x else (Z.of_N x - Z.of_N two64)%Z.
Definition wrap_int64 (z : Z) : Z := ((z + Z.of_N two63) mod Z.of_N two64 - Z.of_N two63)%Z.

Section Difficulty.
Variable cfg : config.

(* const target = config.TARGET_BLOCK_TIME * 1000 *)
Definition target_ms : N := target_block_time cfg * 1000.
(* const maxDeviation = config.TARGET_BLOCK_TIME * 1000 * 2 * config.DIFFICULTY_N *)
Definition max_deviation : N := target_block_time cfg * 1000 * 2 * difficulty_n cfg.

(* difficultyEMA(solveTime, prevDiff).  [N * target] and [uint64(N)*target - target] are compile-time constants
   (the compiler rejects them when they do not fit uint64: side condition cfg_ok_difficulty);
   "+ solveTime" is a run-time uint64 addition and wraps. *)
Definition difficulty_ema (solve_time prev_diff : N) : outcome N :=
  bind (mul64 prev_diff (difficulty_n cfg * target_ms)) (fun num =>
  let den := wadd (difficulty_n cfg * target_ms - target_ms) solve_time in
  div64 num den).

(* the LTTC block of GetNextDifficulty: bl.Height, bl.Timestamp, deltaTime -> deltaTime *)
Definition lttc_adjust (height ts delta : N) : N :=
  if genesis_timestamp cfg =? 0 then delta
  else
    let expected := wadd (wmul (wmul height (target_block_time cfg)) 1000) (genesis_timestamp cfg) in
    let deviation := wrap_int64 (to_int64 ts - to_int64 expected) in
    if (Z.of_N max_deviation <? deviation)%Z then wmul delta 3 / 2
    else if (deviation <? - Z.of_N max_deviation)%Z then wmul delta 2 / 3
    else delta.

(* GetNextDifficulty(tx, bl) where bl = parent of the block being built/checked and prev = grandparent
   (the only field read from prev is its timestamp).  The database error path (grandparent missing) is not part
   of this function: the caller passes the grandparent's timestamp. *)
Definition next_difficulty (parent_height parent_ts parent_diff grand_ts : N) : outcome N :=
  if parent_height <? 2 then Ok (from64 (min_difficulty cfg))
  else
    let delta := wsub parent_ts grand_ts in
    let delta := if delta <? 100 then 100 else delta in
    let delta := lttc_adjust parent_height parent_ts delta in
    bind (difficulty_ema delta parent_diff) (fun nd =>
    Ok (match cmp64 nd (min_difficulty cfg) with
        | CLt => from64 (min_difficulty cfg)
        | _ => nd
        end)).

End Difficulty.

(* block.ValidPowValue(val, diff): val.Cmp(uint128.Max.Div(diff)) <= 0 *)
Definition pow_target (d : N) : outcome N := div max128 d.
Definition valid_pow_value (val d : N) : outcome bool :=
  bind (pow_target d) (fun t => Ok (match cmp val t with CGt => false | _ => true end)).

(* bc-block.go: required difficulty of a side block, b.Difficulty.Mul64(2).Div64(3) *)
Definition side_difficulty (d : N) : outcome N := bind (mul64 d 2) (fun x => div64 x 3).

(* util.GetTarget(n) = 0xffffffffffffffff / n.Lo  (stratum job target; ignores n.Hi; Go integer division by zero panics) *)
Definition get_target (d : N) : outcome N := if lo d =? 0 then Panic else Ok (max_u64 / lo d).

(* ---- Specification level: exact arithmetic over N and Z, no machine words ---- *)
Section Spec.
Variable cfg : config.
Notation Nn := (difficulty_n cfg).
Notation T := (target_block_time cfg * 1000).

(* clamped solve time and its LTTC scaling, in unbounded integers *)
Definition spec_solve_time (parent_height parent_ts grand_ts : N) : N :=
  let st := N.max 100 (parent_ts - grand_ts) in
  if genesis_timestamp cfg =? 0 then st
  else
    let dev := (Z.of_N parent_ts - Z.of_N (parent_height * T + genesis_timestamp cfg))%Z in
    if (Z.of_N (T * 2 * Nn) <? dev)%Z then st * 3 / 2
    else if (dev <? - Z.of_N (T * 2 * Nn))%Z then st * 2 / 3
    else st.

(* floor( d*N*T / ((N-1)*T + st) ) *)
Definition spec_ema (st d : N) : N := d * Nn * T / ((Nn - 1) * T + st).

Definition spec_next (parent_height parent_ts parent_diff grand_ts : N) : N :=
  if parent_height <? 2 then min_difficulty cfg
  else N.max (min_difficulty cfg) (spec_ema (spec_solve_time parent_height parent_ts grand_ts) parent_diff).
End Spec.
