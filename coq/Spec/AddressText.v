(* Which texts denote which (address, payment id): the specification that FromString is proved to decide
   (Props/C18.v: C18_parse_accepts_iff).  Stated with positional numerals and explicit character classes,
   independently of the control flow of the parser. *)
From Virel Require Export Lib.Config Lib.U64 Lib.Digits Model.Address.
Open Scope N_scope.

Definition dec_char (c : N) : Prop := 48 <= c <= 57.                                            (* 0-9 *)
Definition b36_char (c : N) : Prop := 48 <= c <= 57 \/ 65 <= c <= 90 \/ 97 <= c <= 122.         (* 0-9 A-Z a-z *)
(* the value of a digit character; upper and lower case letters count alike *)
Definition char_val (c : N) : N := if c <=? 57 then c - 48 else if c <=? 90 then c - 55 else c - 87.
(* the number written by a digit string, most significant digit first *)
Definition numeral (b : N) (s : list N) : N := of_digits b (map char_val s).

Section Spec.
Variable cfg : config.

(* the decoded bytes are checksum || address || payment id bytes, and the checksum is that of what follows it:
   16 bits of CRC-32; the payment id is the little-endian value of at most eight bytes after the address *)
Definition payload_of (data a : list N) (pid : N) : Prop :=
  exists c0 c1 body,
    data = c0 :: c1 :: body /\ checksum body = (c0, c1) /\ (SZ cfg <= length body)%nat /\
    a = firstn (SZ cfg) body /\ pid = of_le 256 (firstn 8 (skipn (SZ cfg) body)).

Inductive denotes (t a : list N) (pid : N) : Prop :=
| DBurn : t = burn_text -> a = zero_addr cfg -> pid = 0 -> denotes t a pid
(* delegate<decimal digits>, value below 2^64: no checksum *)
| DDelegate ds :
    t = delegate_prefix cfg ++ ds -> ds <> [] -> Forall dec_char ds -> numeral 10 ds < two64 ->
    a = delegate_addr cfg (numeral 10 ds) -> pid = 0 -> denotes t a pid
(* wallet prefix, optional sign, base-36 digits (either case); at least four characters; every leading '0'
   digit stands for a zero byte in front of the bytes of the number; the bytes must carry a matching checksum *)
| DAccount sg ds :
    t = wallet_prefix cfg ++ sg ++ ds -> (sg = [] \/ sg = [43] \/ sg = [45]) -> ds <> [] -> Forall b36_char ds ->
    (4 <= length t)%nat ->
    payload_of (repeat 0 (lead_count 48 (sg ++ ds)) ++ to_digits 256 (numeral 36 ds)) a pid ->
    denotes t a pid.

End Spec.

(* ---- the error-detection statement of C18 at full strength (NOT proved: measured by the harness) ----
   Over all account addresses, for every payment id: of all single-character substitutions, deletions and
   insertions (alphabet 0-9 a-z A - _ +) of the text of an address, at most the fraction 2^-12 is accepted as
   a different (address, payment id).  A counting statement about CRC-32 mod 2^16 under base-36 digit edits. *)

Fixpoint splits {A} (l : list A) : list (list A * list A) :=
  ([], l) :: match l with [] => [] | x :: r => map (fun pq => (x :: fst pq, snd pq)) (splits r) end.

Definition edits (alphabet t : list N) : list (list N) :=
  flat_map (fun pq =>
    let p := fst pq in
    map (fun c => p ++ c :: snd pq) alphabet
    ++ match snd pq with
       | [] => []
       | x :: q => (p ++ q) :: map (fun c => p ++ c :: q) (filter (fun c => negb (c =? x)) alphabet)
       end) (splits t).

Definition edit_alphabet : list N := map digit_char (map N.of_nat (seq 0 36)) ++ [65; 45; 95; 43].

Definition accepted_as_other (cfg : config) (a : list N) (pid : N) (t' : list N) : bool :=
  match parse_addr cfg t' with
  | POk a' pid' => negb (list_N_eqb a a' && (pid =? pid'))
  | _ => false
  end.

Fixpoint all_byte_strings (n : nat) : list (list N) :=
  match n with
  | O => [[]]
  | S k => flat_map (fun a => map (fun b => b :: a) (map N.of_nat (seq 0 256))) (all_byte_strings k)
  end.

Definition sumN {A} (f : A -> N) (l : list A) : N := fold_right (fun x acc => f x + acc) 0 l.

Definition edit_detection_full (cfg : config) : Prop :=
  forall pid, pid < two64 ->
  let accounts := filter (fun a => negb (is_delegate cfg a)) (all_byte_strings (SZ cfg)) in
  sumN (fun a => N.of_nat (length (filter (accepted_as_other cfg a pid) (edits edit_alphabet (format_addr cfg a pid))))) accounts * 4096
  <= sumN (fun a => N.of_nat (length (edits edit_alphabet (format_addr cfg a pid)))) accounts.
