(* The abstraction from a transaction as the wire decoder returns it (Model/Codec.v: record [Codec.tx], byte strings for
   keys, signatures and addresses) to the symbolic transaction of the ledger model (Model/Ledger.v: record [Ledger.tx],
   keys / addresses / hashes as numbers assigned by a numbering).

   The numbering is passed as Section variables: any functions will do for the STRUCTURAL facts proved about
   abstractions in Proofs/CodecBridge*.v (version byte, payload kind, amounts, delegate ids, nonce, fee: these fields are
   copied unchanged).  For the abstraction to be faithful to the ledger's semantics a numbering would in addition have to
   satisfy the consistency conditions
       addr_id (address.FromPubKey k) = Ledger.addr_of_key (key_id k)       (= 2 * key_id k + 1),
       addr_id (NewDelegateAddress d)  = Ledger.delegate_addr d              (= 2 * d),
       addr_id INVALID_ADDRESS         = Ledger.burn_addr                    (= 0),
       txid_of, key_id, name_id injective on the byte strings that occur,
       sig_by t = key_id k  iff  the signature of t verifies under k,
   none of which is used below; they are conditions on the harness' numbering, not on the codec. *)
From Virel Require Import Lib.Config Lib.U64 Model.Des Model.Codec.
From Virel Require Model.Ledger.
Open Scope N_scope.

Section TxAbs.
Variable txid_of : list N -> N.          (* transaction id of the serialised transaction (BLAKE3 of Transaction.Serialize) *)
Variable key_id : list N -> N.           (* number of a 32-byte public key *)
Variable addr_id : list N -> N.          (* number of a 22-byte address *)
Variable name_id : list N -> N.          (* number of a delegate name *)
Variable sig_by : tx -> N.               (* key whose signature the 64 signature bytes are (0 = none) *)
Variable sig_msg : tx -> bool.           (* the signed message is this transaction's content tagged with this network *)
Variable signer_invalid : list N -> bool.  (* FromPubKey(signer) = INVALID_ADDRESS *)

Definition abs_output (o : output) : N * N := (addr_id (o_recipient o), o_amount o).

Definition abs_data (d : txdata) : Ledger.txdata :=
  match d with
  | Transfer outs => Ledger.TTransfer (map abs_output outs)
  | RegisterDelegate name id => Ledger.TRegister (blen name) (name_id name) id
  | SetDelegate d p => Ledger.TSetDelegate d p
  | Stake a d p => Ledger.TStake a d p
  | Unstake a d => Ledger.TUnstake a d
  end.

Definition abs_tx (t : tx) : Ledger.tx :=
  Ledger.mktx (txid_of (enc_tx t)) (tx_version t) (key_id (tx_signer t)) (sig_by t) (sig_msg t)
              (signer_invalid (tx_signer t)) (abs_data (tx_data t)) (tx_nonce t) (tx_fee t).

(* [x] is the abstraction of something Transaction.Deserialize returned, on some byte string, in one of its two modes *)
Definition tx_decoded (cfg : config) (x : Ledger.tx) : Prop :=
  exists hv bs t, result_of (run (dec_tx cfg hv) bs) = ROk t /\ x = abs_tx t.

(* the same with the mode the block's height prescribes (Block.DeserializeFull: version byte from HARDFORK_V2_HEIGHT on) *)
Definition tx_decoded_at (cfg : config) (height : N) (x : Ledger.tx) : Prop :=
  exists bs t, result_of (run (dec_tx cfg (hf_v2 cfg <=? height)) bs) = ROk t /\ x = abs_tx t.

End TxAbs.
