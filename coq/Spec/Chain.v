(* Specification-level notions of the chain structure of a node state (properties C10, C17): what it means for the
   block store and the height index to be a consistent chain, and the walk along prev_hash. *)
From Virel Require Import Lib.Config Lib.U64 Lib.AMap Model.Ledger Model.Node.
Open Scope N_scope.

(* [gh] = hash of the genesis block *)
Definition chain_structure (gh : N) (n : node) : Prop :=
  (* (a) the block store is a tree rooted at genesis, no orphans *)
  (forall h b, get_block n h = Some b -> b_hash b = h) /\
  (exists g, get_block n gh = Some g /\ b_height g = 0) /\
  (forall h b, get_block n h = Some b -> h <> gh ->
     exists p, get_block n (prev_hash b) = Some p /\ b_height b = b_height p + 1) /\
  (* (c) the tip fields describe the stored block [top] *)
  (exists t, get_block n (top n) = Some t /\ b_height t = top_h n /\ b_cd t = top_cd n) /\
  (* (b) the height index is exactly the main chain: entries for the heights 0..top_h, genesis to [top], each the
     parent of the next, nothing above top_h *)
  get_topo n (top_h n) = Some (top n) /\
  get_topo n 0 = Some gh /\
  (forall ht, top_h n < ht -> get_topo n ht = None) /\
  (forall ht, ht <= top_h n ->
     exists y yb, get_topo n ht = Some y /\ get_block n y = Some yb /\ b_height yb = ht /\
                  (0 < ht -> get_topo n (ht - 1) = Some (prev_hash yb))).

(* every alternative tip entry is filed under the hash of the block it names, with that block's height and weight *)
Definition tips_exact (n : node) : Prop :=
  forall k tp, In (k, tp) (tips n) ->
    k = t_hash tp /\ exists tb, get_block n (t_hash tp) = Some tb /\ b_height tb = t_height tp /\ b_cd tb = t_cd tp.

(* the hashes met when following prev_hash [k] times from [x] (stops early at a hash that is not stored) *)
Fixpoint walk (bl : list (N * block)) (k : nat) (x : N) : list N :=
  match k with
  | O => [x]
  | S k' => x :: match nget bl x with Some b => walk bl k' (prev_hash b) | None => [] end
  end.
Fixpoint heights_down (k : nat) : list N :=
  match k with O => [0] | S k' => N.of_nat (S k') :: heights_down k' end.

