(* The protocol's ledger rules as a short declarative specification (DESIGN.md appendix A.1), read off the
   property texts: for each of the five transaction kinds a precondition and an effect in exact (unbounded)
   arithmetic, the coinbase rule, and [ledger_of_chain].  Executable, so that it can be evaluated on concrete
   chains; the refinement theorems relate it to the transcription of the code in Model/Ledger.v. *)
From Virel Require Import Lib.Config Lib.U64 Lib.AMap Lib.CheckLib Model.Emission Model.Ledger.
Open Scope N_scope.
Open Scope bool_scope.

Section Rules.
Variable cfg : config.
Variable genesis_addr team_key : N.

Definition acct_of (l : ledger) (a : N) : acct := match get_state l a with Some s => s | None => acct0 end.
Definition credit (l : ledger) (a amt id : N) : ledger :=
  let s := acct_of l a in
  let l1 := put_state l a (mkacct (bal s + amt) (nonce s) (inc s + 1) (deleg s)) in
  set_intx l1 (pset (intx l1) (a, inc s + 1) id).
Definition debit (l : ledger) (a amt : N) : ledger :=
  let s := acct_of l a in put_state l a (mkacct (bal s - amt) (nonce s) (inc s) (deleg s)).

Definition fund_of (d : dlg) (owner : N) : option fund := find_fund (d_funds d) owner.
Definition total_of (d : dlg) : N := fold_left (fun s f => s + f_amt f) (d_funds d) 0.
Definition set_fund (d : dlg) (owner : N) (f : option fund) : dlg :=
  mkdlg (d_id d) (d_owner d) (d_name d)
    (match fund_of d owner, f with
     | Some _, _ => upd_fund (d_funds d) owner f
     | None, Some x => d_funds d ++ [x]
     | None, None => d_funds d
     end).

Definition sum_amounts_of (outs : list (N * N)) : N := fold_left (fun s o => s + snd o) outs 0.

Definition min_fee (t : tx) (h : N) : N :=
  (if hf_v3 cfg <=? h then fee_per_byte_v2 cfg else fee_per_byte cfg) * tx_vsize cfg t.

(* rule codes name the clause of the property that refuses the transaction *)
Definition pre_common (l : ledger) (t : tx) (h : N) : N :=
  let a := addr_of_key (tx_signer t) in
  first_fail [
    (1, (tx_sig_by t =? tx_signer t) && negb (tx_sig_by t =? 0) && tx_sig_msg t);   (* signed by the debited account's key, for this network *)
    (2, match get_state l a with Some _ => true | None => false end);               (* the account exists *)
    (3, tx_nonce t =? nonce (acct_of l a) + 1);                                      (* next nonce *)
    (4, min_fee t h <=? tx_fee t);                                                   (* minimum fee *)
    (5, tx_vsize cfg t <=? max_tx_size cfg);
    (6, if h <? hf_v2 cfg then tx_version t =? 0 else if h <? hf_v3 cfg then tx_version t =? 1
        else (1 <=? tx_version t) && (tx_version t <=? 5));                          (* version admitted at the height *)
    (7, negb (tx_signer_invalid t));
    (8, (tx_version t =? 0) && (data_version (tx_data t) =? 1) || (tx_version t =? data_version (tx_data t)))].

(* precondition (0 = admitted) and effect per kind; [h] is the height of the block containing the transaction *)
Definition spec_tx (l : ledger) (t : tx) (h : N) : N * ledger :=
  let a := addr_of_key (tx_signer t) in
  let acc := acct_of l a in
  let c := pre_common l t h in
  if negb (c =? 0) then (c, l) else
  (* common effect: nonce, outgoing index, height of the transaction *)
  let bump (l : ledger) (dg : N) : ledger :=
      let s := acct_of l a in
      let l1 := put_state l a (mkacct (bal s) (nonce s + 1) (inc s) dg) in
      let l2 := set_outtx l1 (pset (outtx l1) (a, nonce s + 1) (tx_id t)) in
      set_txh l2 (nset (txh l2) (tx_id t) h) in
  match tx_data t with
  | TTransfer outs =>
      let total := sum_amounts_of outs + tx_fee t in
      let c := first_fail [
        (11, (1 <=? N.of_nat (length outs)) && (N.of_nat (length outs) <=? max_outputs cfg));
        (12, total <? two64);
        (13, total <=? bal acc)] in
      if negb (c =? 0) then (c, l) else
      let l1 := debit (bump l (deleg acc)) a total in
      (0, fold_left (fun l o => credit l (fst o) (snd o) (tx_id t)) outs l1)
  | TRegister name_len name id =>
      let c := first_fail [
        (21, name_len <=? 16);
        (22, negb (id =? 0));
        (23, negb (id =? 1) || (tx_signer t =? team_key));
        (24, match get_dlg l id with None => true | Some _ => false end);     (* duplicate delegate id *)
        (25, register_burn cfg + tx_fee t <=? bal acc)] in
      if negb (c =? 0) then (c, l) else
      let l1 := debit (bump l (deleg acc)) a (register_burn cfg + tx_fee t) in
      let l2 := credit l1 burn_addr (register_burn cfg) (tx_id t) in
      (0, put_dlg l2 (mkdlg id (tx_signer t) name []))
  | TSetDelegate new prev =>
      let c := first_fail [
        (31, prev =? deleg acc);                                              (* previous delegate *)
        (32, match get_dlg l prev with Some d => match fund_of d a with None => true | Some _ => false end | None => true end);
        (33, match get_dlg l new with Some _ => true | None => false end);
        (34, tx_fee t <=? bal acc)] in
      if negb (c =? 0) then (c, l) else
      (0, debit (bump l new) a (tx_fee t))
  | TStake amt id prev_unlock =>
      match get_dlg l id with
      | None => (if id =? 0 then 41 else if deleg acc =? id then 43 else 42, l)
      | Some d =>
          let c := first_fail [
            (40, min_stake cfg <=? amt);
            (41, negb (id =? 0));
            (42, deleg acc =? id);
            (44, match fund_of d a with Some f => f_unlock f =? prev_unlock | None => true end);
            (45, (amt + tx_fee t <? two64) && (amt + tx_fee t <=? bal acc))] in
          if negb (c =? 0) then (c, l) else
          let old := match fund_of d a with Some f => f_amt f | None => 0 end in
          let l1 := debit (bump l (deleg acc)) a (amt + tx_fee t) in
          let l2 := credit l1 (delegate_addr id) amt (tx_id t) in
          let l3 := put_dlg l2 (set_fund d a (Some (mkfund a (old + amt) ((h - 1) + unlock_time cfg)))) in
          (0, set_staked l3 (staked l3 + amt))
      end
  | TUnstake amt id =>
      match get_dlg l id with
      | None => (if id =? 0 then 51 else if deleg acc =? id then 53 else 52, l)
      | Some d =>
          match fund_of d a with
          | None => (if id =? 0 then 51 else if deleg acc =? id then 54 else 52, l)   (* not the owner of a fund in that pool *)
          | Some f =>
              let c := first_fail [
                (50, tx_fee t <=? amt);
                (51, negb (id =? 0));
                (52, deleg acc =? id);
                (55, f_unlock f <=? h - 1);                                    (* still locked *)
                (56, amt <=? f_amt f);
                (57, amt <=? bal (acct_of l (delegate_addr id)))] in
              if negb (c =? 0) then (c, l) else
              let l1 := debit (bump l (deleg acc)) (delegate_addr id) amt in
              let l2 := credit l1 a (amt - tx_fee t) (tx_id t) in
              let l3 := put_dlg l2 (set_fund d a (if f_amt f =? amt then None else Some (mkfund a (f_amt f - amt) (f_unlock f)))) in
              (0, set_staked l3 (staked l3 - amt))
          end
      end
  end.

(* staker reward: every fund gets floor(floor(amt*r/100)*99/total), the remainder goes to the pool owner's fund *)
Definition spec_pos_reward (l : ledger) (bh id r : N) : N * ledger :=
  match get_dlg l id with
  | None => (61, l)
  | Some d =>
      let total := total_of d in
      if (id =? 0) || (N.of_nat (length (d_funds d)) =? 0) || (total =? 0) then (62, l) else   (* no stake, no reward *)
      let funds1 := map (fun f => mkfund (f_owner f) (f_amt f + f_amt f * r / 100 * 99 / total) (f_unlock f)) (d_funds d) in
      let added := fold_left (fun s f => s + f_amt f * r / 100 * 99 / total) (d_funds d) 0 in
      let owner := addr_of_key (d_owner d) in
      let d1 := mkdlg (d_id d) (d_owner d) (d_name d) funds1 in
      let d2 := set_fund d1 owner (Some (match fund_of d1 owner with
                                         | Some f => mkfund owner (f_amt f + (r - added)) (f_unlock f)
                                         | None => mkfund owner (r - added) 0 end)) in
      let l2 := put_dlg l d2 in
      (0, set_staked l2 (staked l2 + r))
  end.

(* the block rule: lottery result published, transactions in order, coinbase split credited *)
Definition spec_block (l : ledger) (b : lblock) : N * ledger :=
  let lot := if 0 <? lb_version b then
               match get_staker l (lb_prev_lottery b) with Ok s => s =? lb_next_delegate_id b | _ => false end
             else true in
  if negb lot then (71, l) else
  let r := fold_left (fun (acc : N * ledger * N) t =>
                        let '(c, l, fee) := acc in
                        if negb (c =? 0) then acc else
                        let '(c', l') := spec_tx l t (lb_height b) in (c', l', fee + tx_fee t))
                     (lb_txs b) (0, l, 0) in
  let '(c, l1, fee) := r in
  if negb (c =? 0) then (c, l) else
  match coinbase cfg (lb_version b) (lb_signed b) (reward cfg (lb_height b) + fee) with
  | CbPanic => (72, l)
  | CbOuts outs =>
      let r2 := fold_left (fun (acc : N * ledger) (o : N * N) =>
                  let '(c, l) := acc in
                  if negb (c =? 0) then acc else
                  let '(ty, a) := o in
                  if ty =? OUT_COINBASE_DEV then (0, credit l genesis_addr a (lb_hash b))
                  else if ty =? OUT_COINBASE_POW then (0, credit l (lb_recipient b) a (lb_hash b))
                  else if ty =? OUT_COINBASE_POS then
                    spec_pos_reward (credit l (delegate_addr (lb_delegate_id b)) a (lb_hash b)) (lb_hash b) (lb_delegate_id b) a
                  else (0, credit l burn_addr a (lb_hash b))) outs (0, l1) in
      if negb (fst r2 =? 0) then (fst r2, l) else (0, snd r2)
  end.

Fixpoint ledger_of_chain (l : ledger) (bs : list lblock) : N * ledger :=
  match bs with
  | [] => (0, l)
  | b :: r => let '(c, l1) := spec_block l b in if negb (c =? 0) then (c, l) else ledger_of_chain l1 r
  end.

End Rules.
