(* C05's property as a declarative predicate: what every block a node stores or builds on must satisfy,
   one conjunct per clause of the property text.  Written against the store (parent, grandparent and the
   three predecessors looked up by hash); it does NOT reuse the validation functions of Model/Node.v except
   for the arithmetic it names (retarget, contribution, proof-of-work target). *)
From Virel Require Import Lib.Config Lib.U64 Lib.AMap Lib.CheckLib Model.Ledger Model.Node.
Open Scope N_scope.
Open Scope bool_scope.

Section WellFormed.
Variable cfg : config.
Variable team_key : N.

Definition res_is {A} (r : res A) (p : A -> bool) : bool := match r with Ok a => p a | _ => false end.

Definition hashes_eqb := list_nat_eqb.

(* the hashes of the actual predecessors of a block whose parent is [p]: parent, grandparent, great-grandparent *)
Definition real_ancestors (p : block) : list N :=
  b_hash p :: firstn 2 (b_anc p).

Definition tx_sizes (b : block) : N := fold_left (fun s t => s + tx_vsize cfg t) (b_txs b) 0.

Fixpoint distinct_commits (ss : list commit) : bool :=
  match ss with
  | [] => true
  | s :: r => forallb (fun s2 => negb (cm_eq s2 =? cm_eq s)) r && distinct_commits r
  end.

(* blocks among the three predecessors (those that exist, stopping at genesis) *)
Definition pred_blocks (n : node) (b : block) : list block :=
  (fix go (hs : list N) : list block :=
     match hs with
     | [] => []
     | h :: r => match get_block n h with
                 | Some x => if b_height x =? 0 then [x] else x :: go r
                 | None => [] end
     end) (b_anc b).

Definition side_referenced (n : node) (b : block) (s : commit) : bool :=
  existsb (fun x => (cm_eq s =? cm_eq (b_commit x)) || existsb (fun v => cm_eq s =? cm_eq v) (b_sides x)) (pred_blocks n b).

(* shares a recent ancestor: some ancestor of the side block is one of the block's ancestors *)
Definition shares_ancestor (b : block) (s : commit) : bool :=
  existsb (fun a => existsb (fun x => x =? a) (b_anc b)) (cm_anc s).

Definition side_work_ok (b : block) (s : commit) : bool :=
  let d23 := if b_diff b * 2 / 3 =? 0 then b_diff b else b_diff b * 2 / 3 in
  negb (d23 =? 0) && (cm_pow s <=? max128 / d23).

(* one boolean per clause of the property; [p] is the parent *)
Definition wf_pow (b : block) : bool :=
  is_secured cfg (b_height b) || (negb (b_diff b =? 0) && (b_pow b <=? max128 / b_diff b)).
Definition wf_diff (n : node) (p b : block) : bool := res_is (get_next_difficulty cfg n p) (fun d => b_diff b =? d).
Definition wf_height (p b : block) : bool := b_height b =? b_height p + 1.
Definition wf_time (p b : block) (now : N) : bool := (b_ts p <=? b_ts b) && (b_ts b <=? now + future_time_limit cfg * 1000).
Definition wf_cd (p b : block) : bool := res_is (contribution b) (fun c => b_cd b =? b_cd p + c).
Definition wf_version (b : block) : bool := b_version b =? (if hf_v3 cfg <=? b_height b then 1 else 0).
Definition wf_anc (p b : block) : bool := hashes_eqb (b_anc b) (real_ancestors p).
Definition wf_chains (b : block) : bool := chains_ok cfg (b_chains b).
Definition wf_size (b : block) : bool := tx_sizes b <=? max_block_size cfg.
Definition wf_nsides (b : block) : bool := N.of_nat (length (b_sides b)) <=? max_side_blocks cfg.
Definition wf_distinct (b : block) : bool := distinct_commits (b_sides b).
Definition wf_unref (n : node) (b : block) : bool := forallb (fun s => negb (side_referenced n b s)) (b_sides b).
Definition wf_shared (b : block) : bool := forallb (shares_ancestor b) (b_sides b).
Definition wf_sidework (b : block) : bool := is_secured cfg (b_height b) || forallb (side_work_ok b) (b_sides b).

(* codes = clause of the property that fails; 0 = well formed *)
Definition wellformed (n : node) (b : block) (now : N) : N :=
  match get_block n (prev_hash b) with
  | None => 20                                                  (* parent unknown *)
  | Some p =>
      first_fail [
        (1, wf_pow b); (2, wf_diff n p b); (3, wf_height p b); (4, wf_time p b now); (5, wf_cd p b);
        (6, wf_version b); (7, wf_anc p b); (8, wf_chains b); (9, wf_size b); (10, wf_nsides b);
        (11, wf_distinct b); (12, wf_unref n b); (13, wf_shared b); (14, wf_sidework b)]
  end.

End WellFormed.
